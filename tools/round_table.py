#!/usr/bin/env python3
"""tools/round_table.py <round-no>: markdown rows (id | change | result) for the seeded changes recorded in that round."""
import json, glob, sys
rnd = "round %s" % sys.argv[1]
for d in sorted(glob.glob('/verif/seeded/C*-m*/')):
    m = json.load(open(d + 'meta.json'))
    note = m.get('note', '')
    if not note.startswith(rnd):
        continue
    res = []
    for c in m['checks_run']:
        res.append("%s %s" % (c['check'], '**caught**' if c['exit'] == 1 else 'missed'))
    summary = m['summary'].replace('|', '/').replace('\n', ' ')
    if len(summary) > 210:
        summary = summary[:207] + '...'
    note2 = note[len(rnd) + 1:].strip().replace('|', '/').replace('\n', ' ')
    if len(note2) > 330:
        note2 = note2[:327] + '...'
    print("| %s | %s | %s. %s |" % (m['id'], summary, ' -> '.join(res), note2))
