#!/usr/bin/env python3
"""Regenerates the round-3 / round-4 seeded-change tables of DESIGN.md from seeded/*/meta.json."""
import re, subprocess
p = '/verif/DESIGN.md'
s = open(p).read()
for r in ('3', '4'):
    t = subprocess.check_output(['python3', '/verif/tools/round_table.py', r]).decode().rstrip('\n')
    block = '<!--R%s-->\n| id | change | result |\n|---|---|---|\n%s\n<!--/R%s-->' % (r, t, r)
    if '@ROUND%sTABLE@' % r in s:
        s = s.replace('@ROUND%sTABLE@' % r, block)
    else:
        s = re.sub(r'<!--R%s-->.*?<!--/R%s-->' % (r, r), lambda m: block, s, flags=re.S)
open(p, 'w').write(s)
