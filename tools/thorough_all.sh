#!/bin/bash
# usage: tools/thorough_all.sh [jobs]  - every registered property once at the thorough tier; one summary line each
cd "$(dirname "$0")/.."
for p in C10 C11 C12 C13 C09 C08 C15 C16 C18 C19 C02 C17 C20 C04 C01 C03; do
  t0=$(date +%s); out=$(./check $p --tier thorough --jobs ${1:-10} 2>&1); rc=$?
  echo "== $p thorough exit=$rc $(( $(date +%s) - t0 ))s"
  echo "$out" | grep -E "^violation|VIOLATION|HARNESS|BUILD|KNOWN-FINDING|^C[0-9][0-9] [a-z]+/[a-z]+\[" | cut -c1-300
done
