#!/bin/bash
# usage: tools/seedsweep.sh "<props>" "<seeds>" [jobs]   - no-false-alarm self-test over several VERIF_SEEDs
PROPS=$1; SEEDS=$2; JOBS=${3:-6}
cd /verif
for p in $PROPS; do for s in $SEEDS; do
  out=$(VERIF_SEED=$s nice ./check $p --jobs $JOBS 2>&1)
  rc=$?
  echo "== $p seed=$s exit=$rc $(echo "$out" | grep -cE '^VIOLATION') violation(s)"
  echo "$out" | grep -E "^violation|HARNESS|BUILD" | cut -c1-260
done; done
