#!/bin/bash
# usage: tools/plannersweep.sh <Cxx> <seconds per planner> [jobs] [variant]  - one focused run per planner of the plansim registry
PROP=$1; SEC=${2:-60}; JOBS=${3:-8}; VAR=${4:-plain}
cd "$(dirname "$0")/.."
for pl in RRT RRTConnect RRTstar InformedRRTstar SORRTstar RRTsharp RRTXstatic LazyRRT TRRT BiTRRT LBTRRT BITstar ABITstar AITstar EITstar EIRMstar KPIECE1 BKPIECE1 LBKPIECE1 EST BiEST ProjEST SBL FMT BFMT LazyPRM LazyPRMstar STRIDE PDST SST RLRT BiRLRT QRRT QRRTStar QMP QMPStar; do
  out=$(./build/$VAR/plansim --prop $PROP --variant $VAR --planner $pl --budget $SEC --jobs $JOBS --known known_findings.json --out build/tmp/sweep-$PROP.json --replay-dir build/tmp/sweeprep 2>&1)
  echo "== $PROP $pl: $(echo "$out" | grep -E "^C[0-9][0-9] plansim" | grep -oE "[0-9]+ cases|[0-9]+ violation class|exit [0-9]" | tr '\n' ' ')"
  echo "$out" | grep -E "^violation|HARNESS" | cut -c1-330
done
