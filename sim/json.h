// Minimal JSON value (ordered objects, int64 / double distinction, exact double round trip).
// Plans, replay files, per-case results and evidence are all this type.
#pragma once
#include <cstdint>
#include <cstdio>
#include <cstdlib>
#include <cstring>
#include <cmath>
#include <map>
#include <stdexcept>
#include <string>
#include <utility>
#include <vector>
#include <fstream>
#include <sstream>

namespace sim
{
    class Json
    {
    public:
        enum Type
        {
            Null,
            Bool,
            Int,
            Real,
            Str,
            Arr,
            Obj
        };
        Json() = default;
        Json(std::nullptr_t)
        {
        }
        Json(bool b) : t_(Bool), i_(b)
        {
        }
        Json(int v) : t_(Int), i_(v)
        {
        }
        Json(unsigned v) : t_(Int), i_(v)
        {
        }
        Json(long v) : t_(Int), i_(v)
        {
        }
        Json(long long v) : t_(Int), i_(v)
        {
        }
        Json(unsigned long v) : t_(Int), i_((int64_t)v)
        {
        }
        Json(unsigned long long v) : t_(Int), i_((int64_t)v)
        {
        }
        Json(double v) : t_(Real), d_(v)
        {
        }
        Json(const char *s) : t_(Str), s_(s)
        {
        }
        Json(const std::string &s) : t_(Str), s_(s)
        {
        }
        static Json array()
        {
            Json j;
            j.t_ = Arr;
            return j;
        }
        static Json object()
        {
            Json j;
            j.t_ = Obj;
            return j;
        }
        template <class T>
        static Json arrayOf(const std::vector<T> &v)
        {
            Json j = array();
            for (auto &x : v)
                j.push(Json(x));
            return j;
        }

        Type type() const
        {
            return t_;
        }
        bool isNull() const
        {
            return t_ == Null;
        }
        bool isObj() const
        {
            return t_ == Obj;
        }
        bool isArr() const
        {
            return t_ == Arr;
        }
        bool isStr() const
        {
            return t_ == Str;
        }
        bool isNum() const
        {
            return t_ == Int || t_ == Real;
        }

        bool b() const
        {
            return t_ == Bool ? i_ != 0 : (t_ == Int ? i_ != 0 : false);
        }
        int64_t i() const
        {
            return t_ == Int || t_ == Bool ? i_ : (t_ == Real ? (int64_t)d_ : 0);
        }
        double d() const
        {
            return t_ == Real ? d_ : (double)i_;
        }
        const std::string &s() const
        {
            return s_;
        }

        // arrays
        size_t size() const
        {
            return t_ == Arr ? a_.size() : (t_ == Obj ? o_.size() : 0);
        }
        Json &push(Json v)
        {
            if (t_ != Arr)
            {
                *this = array();
            }
            a_.push_back(std::move(v));
            return a_.back();
        }
        Json &at(size_t k)
        {
            return a_.at(k);
        }
        const Json &at(size_t k) const
        {
            return a_.at(k);
        }
        std::vector<Json> &items()
        {
            return a_;
        }
        const std::vector<Json> &items() const
        {
            return a_;
        }

        // objects
        bool has(const std::string &k) const
        {
            if (t_ != Obj)
                return false;
            for (auto &p : o_)
                if (p.first == k)
                    return true;
            return false;
        }
        Json &operator[](const std::string &k)
        {
            if (t_ != Obj)
                *this = object();
            for (auto &p : o_)
                if (p.first == k)
                    return p.second;
            o_.emplace_back(k, Json());
            return o_.back().second;
        }
        const Json &operator[](const std::string &k) const
        {
            static const Json nul;
            if (t_ != Obj)
                return nul;
            for (auto &p : o_)
                if (p.first == k)
                    return p.second;
            return nul;
        }
        Json &operator[](const char *k)
        {
            return (*this)[std::string(k)];
        }
        const Json &operator[](const char *k) const
        {
            return (*this)[std::string(k)];
        }
        void erase(const std::string &k)
        {
            for (size_t n = 0; n < o_.size(); n++)
                if (o_[n].first == k)
                {
                    o_.erase(o_.begin() + n);
                    return;
                }
        }
        std::vector<std::pair<std::string, Json>> &members()
        {
            return o_;
        }
        const std::vector<std::pair<std::string, Json>> &members() const
        {
            return o_;
        }
        // typed getters with defaults
        int64_t geti(const std::string &k, int64_t def = 0) const
        {
            const Json &v = (*this)[k];
            return v.isNull() ? def : v.i();
        }
        double getd(const std::string &k, double def = 0) const
        {
            const Json &v = (*this)[k];
            return v.isNull() ? def : v.d();
        }
        bool getb(const std::string &k, bool def = false) const
        {
            const Json &v = (*this)[k];
            return v.isNull() ? def : v.b();
        }
        std::string gets(const std::string &k, const std::string &def = "") const
        {
            const Json &v = (*this)[k];
            return v.isStr() ? v.s() : def;
        }

        bool operator==(const Json &o) const
        {
            return dump() == o.dump();
        }

        std::string dump(int indent = -1) const
        {
            std::string out;
            dumpTo(out, indent, 0);
            return out;
        }

        static Json parse(const std::string &text)
        {
            size_t p = 0;
            Json v = parseValue(text, p);
            skipWs(text, p);
            if (p != text.size())
                throw std::runtime_error("json: trailing characters");
            return v;
        }
        static Json parseFile(const std::string &path)
        {
            std::ifstream f(path);
            if (!f)
                throw std::runtime_error("json: cannot open " + path);
            std::stringstream ss;
            ss << f.rdbuf();
            return parse(ss.str());
        }
        bool writeFile(const std::string &path, int indent = 1) const
        {
            std::ofstream f(path);
            if (!f)
                return false;
            f << dump(indent) << "\n";
            return (bool)f;
        }

    private:
        Type t_{Null};
        int64_t i_{0};
        double d_{0};
        std::string s_;
        std::vector<Json> a_;
        std::vector<std::pair<std::string, Json>> o_;

        static void esc(std::string &out, const std::string &s)
        {
            out += '"';
            for (unsigned char c : s)
            {
                switch (c)
                {
                    case '"':
                        out += "\\\"";
                        break;
                    case '\\':
                        out += "\\\\";
                        break;
                    case '\n':
                        out += "\\n";
                        break;
                    case '\r':
                        out += "\\r";
                        break;
                    case '\t':
                        out += "\\t";
                        break;
                    default:
                        if (c < 0x20)
                        {
                            char b[8];
                            snprintf(b, sizeof b, "\\u%04x", c);
                            out += b;
                        }
                        else
                            out += (char)c;
                }
            }
            out += '"';
        }
        static void nl(std::string &out, int indent, int depth)
        {
            if (indent < 0)
                return;
            out += '\n';
            out.append((size_t)indent * depth, ' ');
        }
        void dumpTo(std::string &out, int indent, int depth) const
        {
            char b[64];
            switch (t_)
            {
                case Null:
                    out += "null";
                    break;
                case Bool:
                    out += i_ ? "true" : "false";
                    break;
                case Int:
                    snprintf(b, sizeof b, "%lld", (long long)i_);
                    out += b;
                    break;
                case Real:
                    if (std::isfinite(d_))
                    {
                        snprintf(b, sizeof b, "%.17g", d_);
                        out += b;
                        if (!strpbrk(b, ".eEn"))
                            out += ".0";
                    }
                    else
                        out += std::isnan(d_) ? "\"nan\"" : (d_ > 0 ? "\"inf\"" : "\"-inf\"");
                    break;
                case Str:
                    esc(out, s_);
                    break;
                case Arr:
                {
                    out += '[';
                    bool simple = true;
                    for (auto &v : a_)
                        if (v.t_ == Arr || v.t_ == Obj)
                            simple = false;
                    for (size_t k = 0; k < a_.size(); k++)
                    {
                        if (k)
                            out += ',';
                        if (!simple)
                            nl(out, indent, depth + 1);
                        a_[k].dumpTo(out, indent, depth + 1);
                    }
                    if (!simple && !a_.empty())
                        nl(out, indent, depth);
                    out += ']';
                    break;
                }
                case Obj:
                {
                    out += '{';
                    for (size_t k = 0; k < o_.size(); k++)
                    {
                        if (k)
                            out += ',';
                        nl(out, indent, depth + 1);
                        esc(out, o_[k].first);
                        out += ':';
                        if (indent >= 0)
                            out += ' ';
                        o_[k].second.dumpTo(out, indent, depth + 1);
                    }
                    if (!o_.empty())
                        nl(out, indent, depth);
                    out += '}';
                    break;
                }
            }
        }
        static void skipWs(const std::string &t, size_t &p)
        {
            while (p < t.size() && (t[p] == ' ' || t[p] == '\n' || t[p] == '\t' || t[p] == '\r'))
                p++;
        }
        static Json parseValue(const std::string &t, size_t &p)
        {
            skipWs(t, p);
            if (p >= t.size())
                throw std::runtime_error("json: unexpected end");
            char c = t[p];
            if (c == '{')
            {
                Json o = object();
                p++;
                skipWs(t, p);
                if (p < t.size() && t[p] == '}')
                {
                    p++;
                    return o;
                }
                for (;;)
                {
                    skipWs(t, p);
                    std::string k = parseString(t, p);
                    skipWs(t, p);
                    if (p >= t.size() || t[p] != ':')
                        throw std::runtime_error("json: expected ':'");
                    p++;
                    o.o_.emplace_back(k, parseValue(t, p));
                    skipWs(t, p);
                    if (p < t.size() && t[p] == ',')
                    {
                        p++;
                        continue;
                    }
                    if (p < t.size() && t[p] == '}')
                    {
                        p++;
                        return o;
                    }
                    throw std::runtime_error("json: expected ',' or '}'");
                }
            }
            if (c == '[')
            {
                Json a = array();
                p++;
                skipWs(t, p);
                if (p < t.size() && t[p] == ']')
                {
                    p++;
                    return a;
                }
                for (;;)
                {
                    a.a_.push_back(parseValue(t, p));
                    skipWs(t, p);
                    if (p < t.size() && t[p] == ',')
                    {
                        p++;
                        continue;
                    }
                    if (p < t.size() && t[p] == ']')
                    {
                        p++;
                        return a;
                    }
                    throw std::runtime_error("json: expected ',' or ']'");
                }
            }
            if (c == '"')
            {
                std::string s = parseString(t, p);
                if (s == "nan")
                    return Json(std::nan(""));
                if (s == "inf")
                    return Json(HUGE_VAL);
                if (s == "-inf")
                    return Json(-HUGE_VAL);
                return Json(s);
            }
            if (!t.compare(p, 4, "true"))
            {
                p += 4;
                return Json(true);
            }
            if (!t.compare(p, 5, "false"))
            {
                p += 5;
                return Json(false);
            }
            if (!t.compare(p, 4, "null"))
            {
                p += 4;
                return Json();
            }
            size_t q = p;
            bool real = false;
            while (q < t.size() && (isdigit((unsigned char)t[q]) || strchr("+-.eE", t[q])))
            {
                if (strchr(".eE", t[q]))
                    real = true;
                q++;
            }
            if (q == p)
                throw std::runtime_error("json: bad token");
            std::string num = t.substr(p, q - p);
            p = q;
            if (real)
                return Json(strtod(num.c_str(), nullptr));
            return Json((long long)strtoll(num.c_str(), nullptr, 10));
        }
        static std::string parseString(const std::string &t, size_t &p)
        {
            if (p >= t.size() || t[p] != '"')
                throw std::runtime_error("json: expected string");
            p++;
            std::string s;
            while (p < t.size() && t[p] != '"')
            {
                if (t[p] == '\\' && p + 1 < t.size())
                {
                    p++;
                    switch (t[p])
                    {
                        case 'n':
                            s += '\n';
                            break;
                        case 't':
                            s += '\t';
                            break;
                        case 'r':
                            s += '\r';
                            break;
                        case 'u':
                        {
                            unsigned v = (unsigned)strtoul(t.substr(p + 1, 4).c_str(), nullptr, 16);
                            s += (char)v;
                            p += 4;
                            break;
                        }
                        default:
                            s += t[p];
                    }
                    p++;
                }
                else
                    s += t[p++];
            }
            if (p >= t.size())
                throw std::runtime_error("json: unterminated string");
            p++;
            return s;
        }
    };
}  // namespace sim
