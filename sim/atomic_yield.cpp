// TSan build only (DESIGN 0.9): in instrumented code every atomic operation is a call into the TSan runtime
// (__tsan_atomicN_op). The library and the engines are linked with -Wl,--wrap for those symbols and these wrappers put a
// scheduler yield point in front of each one, so that the seeded scheduler can preempt a thread BETWEEN two atomic
// operations (e.g. between the load and the store of a counter that is updated non-atomically) - something a scheduler
// that only switches at mutex operations and callbacks cannot execute, and TSan cannot report (no data race between atomics).
// No yield while the thread holds a pthread mutex: mutexes are real in this build, a parked owner would block everyone.
// Compiled WITHOUT -fsanitize=thread.
#include "sim/sched.h"
#include <pthread.h>

namespace
{
    thread_local int held = 0;
    thread_local bool inside = false;
    volatile bool enabled = false;
    volatile long yields = 0;
    inline void pt()
    {
        if (!enabled || held > 0 || inside)
            return;
        inside = true;
        ++yields;
        sim::sched::yield();
        inside = false;
    }
}  // namespace

extern "C" void sim_atomic_yield_enable(int on)
{
    enabled = on != 0;
}
extern "C" long sim_atomic_yield_count()
{
    return yields;
}

#define WRAP_N(N, T)                                                                                                                       \
    extern "C" T __real___tsan_atomic##N##_load(const volatile T *, int);                                                                  \
    extern "C" T __wrap___tsan_atomic##N##_load(const volatile T *a, int mo)                                                               \
    {                                                                                                                                      \
        pt();                                                                                                                              \
        return __real___tsan_atomic##N##_load(a, mo);                                                                                      \
    }                                                                                                                                      \
    extern "C" void __real___tsan_atomic##N##_store(volatile T *, T, int);                                                                 \
    extern "C" void __wrap___tsan_atomic##N##_store(volatile T *a, T v, int mo)                                                            \
    {                                                                                                                                      \
        pt();                                                                                                                              \
        __real___tsan_atomic##N##_store(a, v, mo);                                                                                         \
    }                                                                                                                                      \
    extern "C" T __real___tsan_atomic##N##_exchange(volatile T *, T, int);                                                                 \
    extern "C" T __wrap___tsan_atomic##N##_exchange(volatile T *a, T v, int mo)                                                            \
    {                                                                                                                                      \
        pt();                                                                                                                              \
        return __real___tsan_atomic##N##_exchange(a, v, mo);                                                                               \
    }                                                                                                                                      \
    extern "C" T __real___tsan_atomic##N##_fetch_add(volatile T *, T, int);                                                                \
    extern "C" T __wrap___tsan_atomic##N##_fetch_add(volatile T *a, T v, int mo)                                                           \
    {                                                                                                                                      \
        pt();                                                                                                                              \
        return __real___tsan_atomic##N##_fetch_add(a, v, mo);                                                                              \
    }                                                                                                                                      \
    extern "C" T __real___tsan_atomic##N##_fetch_sub(volatile T *, T, int);                                                                \
    extern "C" T __wrap___tsan_atomic##N##_fetch_sub(volatile T *a, T v, int mo)                                                           \
    {                                                                                                                                      \
        pt();                                                                                                                              \
        return __real___tsan_atomic##N##_fetch_sub(a, v, mo);                                                                              \
    }                                                                                                                                      \
    extern "C" int __real___tsan_atomic##N##_compare_exchange_strong(volatile T *, T *, T, int, int);                                      \
    extern "C" int __wrap___tsan_atomic##N##_compare_exchange_strong(volatile T *a, T *c, T v, int mo, int fmo)                            \
    {                                                                                                                                      \
        pt();                                                                                                                              \
        return __real___tsan_atomic##N##_compare_exchange_strong(a, c, v, mo, fmo);                                                        \
    }                                                                                                                                      \
    extern "C" int __real___tsan_atomic##N##_compare_exchange_weak(volatile T *, T *, T, int, int);                                        \
    extern "C" int __wrap___tsan_atomic##N##_compare_exchange_weak(volatile T *a, T *c, T v, int mo, int fmo)                              \
    {                                                                                                                                      \
        pt();                                                                                                                              \
        return __real___tsan_atomic##N##_compare_exchange_weak(a, c, v, mo, fmo);                                                          \
    }

WRAP_N(8, char)
WRAP_N(32, int)
WRAP_N(64, long)

extern "C" int __real_pthread_mutex_lock(pthread_mutex_t *);
extern "C" int __wrap_pthread_mutex_lock(pthread_mutex_t *m)
{
    int r = __real_pthread_mutex_lock(m);
    if (r == 0)
        held++;
    return r;
}
extern "C" int __real_pthread_mutex_trylock(pthread_mutex_t *);
extern "C" int __wrap_pthread_mutex_trylock(pthread_mutex_t *m)
{
    int r = __real_pthread_mutex_trylock(m);
    if (r == 0)
        held++;
    return r;
}
extern "C" int __real_pthread_mutex_unlock(pthread_mutex_t *);
extern "C" int __wrap_pthread_mutex_unlock(pthread_mutex_t *m)
{
    if (held > 0)
        held--;
    return __real_pthread_mutex_unlock(m);
}
