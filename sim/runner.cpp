#include "sim/runner.h"

#include <atomic>
#include <cerrno>
#include <chrono>
#include <csignal>
#include <cstdarg>
#include <cstdio>
#include <cstdlib>
#include <cstring>
#include <algorithm>
#include <cxxabi.h>
#include <dirent.h>
#include <fcntl.h>
#include <poll.h>
#include <sys/mman.h>
#include <sys/personality.h>
#include <sys/resource.h>
#include <sys/stat.h>
#include <sys/time.h>
#include <sys/wait.h>
#include <typeinfo>
#include <unistd.h>

namespace sim
{
    std::string fmt(const char *f, ...)
    {
        char buf[2048];
        va_list ap;
        va_start(ap, f);
        vsnprintf(buf, sizeof buf, f, ap);
        va_end(ap);
        return buf;
    }

    static Json mapToJson(const std::map<std::string, long> &m)
    {
        Json o = Json::object();
        for (auto &p : m)
            o[p.first] = Json(p.second);
        return o;
    }
    static void jsonToMap(const Json &j, std::map<std::string, long> &m)
    {
        for (auto &p : j.members())
            m[p.first] += p.second.i();
    }

    Json CaseResult::toJson() const
    {
        Json j = Json::object();
        j["vclass"] = vclass;
        j["detail"] = detail;
        j["trace"] = fmt("%016llx", (unsigned long long)trace);
        j["sig"] = sig;
        j["nontrivial"] = nontrivial;
        j["inconclusive"] = inconclusive;
        j["faults"] = mapToJson(faults);
        j["probes"] = mapToJson(probes);
        j["sim_s"] = simSeconds;
        Json a = Json::array();
        for (auto h : interleavings)
            a.push(fmt("%016llx", (unsigned long long)h));
        j["inter"] = a;
        j["info"] = info;
        return j;
    }
    CaseResult CaseResult::fromJson(const Json &j)
    {
        CaseResult r;
        r.vclass = j.gets("vclass");
        r.detail = j.gets("detail");
        r.trace = strtoull(j.gets("trace", "0").c_str(), nullptr, 16);
        r.sig = j.gets("sig");
        r.nontrivial = j.getb("nontrivial");
        r.inconclusive = j.getb("inconclusive");
        jsonToMap(j["faults"], r.faults);
        jsonToMap(j["probes"], r.probes);
        r.simSeconds = j.getd("sim_s");
        for (auto &h : j["inter"].items())
            r.interleavings.push_back(strtoull(h.s().c_str(), nullptr, 16));
        r.info = j["info"];
        return r;
    }

    namespace
    {
        double nowWall()
        {
            // the harness's own wall clock must not go through the (possibly interposed) clock_gettime
            struct timeval tv;
            gettimeofday(&tv, nullptr);
            return tv.tv_sec + tv.tv_usec * 1e-6;
        }

        struct Shared
        {
            std::atomic<long> next;
            std::atomic<long> cur[256];
            std::atomic<long> since[256];  // wall-clock second at which cur[w] was set (watchdog for in-process cases)
            std::atomic<int> stop;
        };

        Engine *g_engine = nullptr;
        Options g_opt;
        int g_childFd = -1;  // fork-per-case child: where the result / exit report goes

        bool writeAll(int fd, const std::string &s)
        {
            size_t off = 0;
            while (off < s.size())
            {
                ssize_t n = ::write(fd, s.data() + off, s.size() - off);
                if (n < 0)
                {
                    if (errno == EINTR)
                        continue;
                    return false;
                }
                off += (size_t)n;
            }
            return true;
        }

        void childExitReport()
        {
            if (g_childFd < 0 || g_engine == nullptr)
                return;
            Json e = Json::object();
            g_engine->atChildExit(e);
            Json m = Json::object();
            m["t"] = "exit";
            m["exit"] = e;
            writeAll(g_childFd, m.dump() + "\n");
        }

        uint64_t caseSeed(const Options &o, long index)
        {
            return mix(mix(mix(o.seed, o.prop), g_engine->name()), (uint64_t)index);
        }

        std::string readFile(const std::string &p, size_t cap = 1 << 20)
        {
            std::string s;
            int fd = open(p.c_str(), O_RDONLY);
            if (fd < 0)
                return s;
            char buf[65536];
            ssize_t n;
            while ((n = read(fd, buf, sizeof buf)) > 0 && s.size() < cap)
                s.append(buf, (size_t)n);
            close(fd);
            return s;
        }

        // first sanitizer / abort headline in a captured stderr, made stable (no addresses)
        std::string crashHeadline(const std::string &err, std::string *detail)
        {
            std::string head;
            size_t p = err.find("ERROR: AddressSanitizer:");
            if (p == std::string::npos)
                p = err.find("runtime error:");
            if (p == std::string::npos)
                p = err.find("ERROR: LeakSanitizer:");
            if (p == std::string::npos)
                p = err.find("WARNING: ThreadSanitizer:");
            if (p != std::string::npos)
            {
                size_t e = err.find('\n', p);
                std::string line = err.substr(p, e == std::string::npos ? std::string::npos : e - p);
                // keep the error kind only: "AddressSanitizer: heap-use-after-free"
                if (line.compare(0, 7, "ERROR: ") == 0)
                    line = line.substr(7);
                if (line.compare(0, 9, "WARNING: ") == 0)
                    line = line.substr(9);
                size_t sp = line.find(" on address");
                if (sp != std::string::npos)
                    line = line.substr(0, sp);
                sp = line.find(" on unknown address");
                if (sp != std::string::npos)
                    line = line.substr(0, sp);
                sp = line.find(" (pid");
                if (sp != std::string::npos)
                    line = line.substr(0, sp);
                if (line.compare(0, 14, "runtime error:") == 0)
                {
                    // UBSan: drop concrete values (addresses, numbers) so the class is stable
                    std::string k;
                    for (size_t q = 0; q < line.size(); q++)
                    {
                        if (line[q] == '0' && q + 1 < line.size() && line[q + 1] == 'x')
                        {
                            q += 2;
                            while (q < line.size() && isxdigit((unsigned char)line[q]))
                                q++;
                            k += "ADDR";
                            q--;
                            continue;
                        }
                        if (!isdigit((unsigned char)line[q]))
                            k += line[q];
                    }
                    line = "UBSan " + k.substr(0, 90);
                }
                if (line.find("ThreadSanitizer") != std::string::npos)
                {
                    // name the racing site: the first frame of the first stack
                    size_t f = err.find("\n    #0 ", p);
                    if (f != std::string::npos)
                    {
                        size_t b = f + 8, e2 = err.find_first_of("( \n", b);
                        std::string fn = err.substr(b, e2 == std::string::npos ? std::string::npos : e2 - b);
                        // skip interceptor / operator frames: prefer the first frame that names ompl
                        size_t q = f;
                        for (int tries = 0; tries < 6 && fn.find("ompl") == std::string::npos; tries++)
                        {
                            q = err.find("\n    #", q + 1);
                            if (q == std::string::npos)
                                break;
                            size_t sp = err.find(' ', q + 6);
                            if (sp == std::string::npos)
                                break;
                            size_t e3 = err.find_first_of("( \n", sp + 1);
                            std::string cand = err.substr(sp + 1, e3 == std::string::npos ? std::string::npos : e3 - sp - 1);
                            if (cand.find("ompl") != std::string::npos)
                                fn = cand;
                        }
                        std::string clean;
                        for (char c : fn)
                            clean += (isalnum((unsigned char)c) || c == ':' || c == '_' || c == '~') ? c : '_';
                        line += " site=" + clean.substr(0, 90);
                    }
                }
                for (auto &c : line)
                    if (c == ' ')
                        c = '_';
                head = line;
            }
            if (detail)
            {
                // first few frames that mention ompl
                std::string d;
                size_t q = (p == std::string::npos) ? 0 : p;
                int frames = 0;
                size_t e0 = err.find('\n', q);
                d = err.substr(q, e0 == std::string::npos ? std::string::npos : e0 - q);
                while (frames < 6 && (q = err.find("\n    #", q)) != std::string::npos)
                {
                    size_t e = err.find('\n', q + 1);
                    std::string fr = err.substr(q + 1, e == std::string::npos ? std::string::npos : e - q - 1);
                    if (fr.find("ompl") != std::string::npos || frames < 2)
                    {
                        d += " | " + fr.substr(fr.find('#'));
                        frames++;
                    }
                    q = (e == std::string::npos) ? err.size() : e;
                }
                *detail = d.substr(0, 1500);
            }
            return head;
        }

        // Run one plan in a forked child. The child exits through exit(), so static destructors and the
        // engine's atChildExit() accounting run; stderr is captured to classify sanitizer reports.
        CaseResult runIsolated(const Json &plan, int slot)
        {
            Engine &e = *g_engine;
            const Options &o = g_opt;
            std::string errPath = o.tmpDir + fmt("/err.%d.%d", (int)getpid(), slot);
            int pfd[2];
            if (pipe(pfd) != 0)
            {
                perror("pipe");
                _exit(2);
            }
            fflush(stdout);
            fflush(stderr);
            pid_t c = fork();
            if (c < 0)
            {
                perror("fork");
                _exit(2);
            }
            if (c == 0)
            {
                close(pfd[0]);
                int efd = open(errPath.c_str(), O_WRONLY | O_CREAT | O_TRUNC, 0644);
                if (efd >= 0)
                {
                    dup2(efd, 2);
                    close(efd);
                }
                struct rlimit rl;
                rl.rlim_cur = (rlim_t)e.cpuLimit(o);
                rl.rlim_max = rl.rlim_cur + 5;
                setrlimit(RLIMIT_CPU, &rl);
                struct rlimit core = {0, 0};
                setrlimit(RLIMIT_CORE, &core);
                alarm((unsigned)e.cpuLimit(o) * 6 + 30);  // wall-clock backstop: inconclusive, not a verdict
                g_childFd = pfd[1];
                CaseResult r;
                try
                {
                    r = e.run(o, plan);
                }
                catch (std::exception &ex)
                {
                    int st = 0;
                    char *dn = abi::__cxa_demangle(typeid(ex).name(), nullptr, nullptr, &st);
                    r.vclass = o.prop + ".exception type=" + (dn ? dn : typeid(ex).name());
                    r.detail = ex.what();
                    free(dn);
                }
                Json m = Json::object();
                m["t"] = "result";
                m["r"] = r.toJson();
                writeAll(g_childFd, m.dump() + "\n");
                exit(0);  // not _exit: run static destructors, then childExitReport()
            }
            close(pfd[1]);
            std::string buf;
            char tmp[65536];
            ssize_t n;
            while ((n = read(pfd[0], tmp, sizeof tmp)) != 0)
            {
                if (n < 0)
                {
                    if (errno == EINTR)
                        continue;
                    break;
                }
                buf.append(tmp, (size_t)n);
            }
            close(pfd[0]);
            int st = 0;
            while (waitpid(c, &st, 0) < 0 && errno == EINTR)
            {
            }
            CaseResult r;
            bool haveResult = false;
            Json exitInfo;
            size_t pos = 0;
            while (pos < buf.size())
            {
                size_t e2 = buf.find('\n', pos);
                if (e2 == std::string::npos)
                    break;
                try
                {
                    Json m = Json::parse(buf.substr(pos, e2 - pos));
                    if (m.gets("t") == "result")
                    {
                        r = CaseResult::fromJson(m["r"]);
                        haveResult = true;
                    }
                    else if (m.gets("t") == "exit")
                        exitInfo = m["exit"];
                }
                catch (std::exception &)
                {
                }
                pos = e2 + 1;
            }
            bool normal = WIFEXITED(st) && WEXITSTATUS(st) == 0;
            if (!normal)
            {
                std::string err = readFile(errPath);
                std::string det;
                std::string head = crashHeadline(err, &det);
                std::string cls;
                if (WIFSIGNALED(st) && WTERMSIG(st) == SIGALRM)
                {
                    r = CaseResult();
                    r.inconclusive = true;
                    r.detail = "wall-clock watchdog";
                    unlink(errPath.c_str());
                    return r;
                }
                std::string ctx = e.crashContext(plan);
                if (WIFSIGNALED(st) && (WTERMSIG(st) == SIGXCPU || WTERMSIG(st) == SIGKILL))
                    cls = o.prop + ".hang" + ctx + " cpu-limit";
                else if (!head.empty())
                    cls = o.prop + ".crash" + ctx + " how=" + head;
                else if (WIFSIGNALED(st))
                    cls = o.prop + ".crash" + ctx + fmt(" how=signal-%d", WTERMSIG(st));
                else
                    cls = o.prop + ".crash" + ctx + fmt(" how=exit-%d", WEXITSTATUS(st));
                if (!e.judgesCrashes(o))
                {
                    CaseResult rr = haveResult ? r : CaseResult();
                    if (rr.vclass.empty())
                    {
                        rr.inconclusive = true;
                        rr.probes["crash-or-hang-not-judged-by-this-property"]++;
                        rr.detail = cls;
                    }
                    unlink(errPath.c_str());
                    return rr;
                }
                if (det.empty())
                    det = err.substr(0, 600);
                // a crash after the result was produced (e.g. in a destructor) is still a crash
                std::string phase = haveResult ? " phase=teardown" : "";
                CaseResult rr = haveResult ? r : CaseResult();
                if (rr.vclass.empty())
                {
                    rr.vclass = cls + phase;
                    rr.detail = det;
                }
                if (haveResult)
                    e.judgeExit(o, plan, rr, Json());
                unlink(errPath.c_str());
                return rr;
            }
            if (!getenv("VERIF_KEEP_STDERR"))
                unlink(errPath.c_str());
            if (!haveResult)
            {
                r.vclass = o.prop + ".crash" + e.crashContext(plan) + " how=no-result";
                return r;
            }
            e.judgeExit(o, plan, r, exitInfo);
            return r;
        }

        struct Violation
        {
            long index = -1;
            uint64_t seed = 0;
            Json plan;
            std::string vclass, detail;
            uint64_t trace = 0;
        };

        struct Agg
        {
            long evals = 0, inconclusive = 0, nontrivialCases = 0, recycles = 0;
            std::set<uint64_t> sigs;  // distinct non-trivial signatures
            std::set<uint64_t> inter;
            std::map<std::string, long> faults, probes, sigNames;
            double simS = 0;
            std::vector<Json> samples;
            std::map<std::string, Violation> viol;  // by class, lowest index wins
            std::map<std::string, long> violCount;
            std::vector<std::pair<long, std::string>> hashes;
        };

        // ---- worker side --------------------------------------------------------------------------
        struct Batch
        {
            Json j = Json::object();
            long evals = 0, inconclusive = 0, nontrivial = 0;
            std::map<std::string, long> faults, probes, sigNames;
            std::set<uint64_t> sigs, inter;
            double simS = 0;
            Json samples = Json::array();
            Json hashes = Json::array();
            void add(const CaseResult &r, long index, const Json &plan, bool wantHash, bool sample)
            {
                evals++;
                if (r.inconclusive)
                    inconclusive++;
                if (r.nontrivial)
                {
                    nontrivial++;
                    sigs.insert(fnv1a(r.sig));
                    sigNames[r.sig]++;
                }
                for (auto &p : r.faults)
                    faults[p.first] += p.second;
                for (auto &p : r.probes)
                    probes[p.first] += p.second;
                for (auto h : r.interleavings)
                    inter.insert(h);
                simS += r.simSeconds;
                if (sample)
                {
                    Json s = Json::object();
                    s["case"] = Json(index);
                    s["plan"] = plan;
                    s["outcome"] = r.info;
                    s["signature"] = r.sig;
                    samples.push(s);
                }
                if (wantHash)
                {
                    Json h = Json::array();
                    h.push(Json(index));
                    h.push(fmt("%016llx", (unsigned long long)r.trace));
                    h.push(r.vclass);
                    hashes.push(h);
                }
            }
            std::string flush()
            {
                Json m = Json::object();
                m["t"] = "batch";
                m["evals"] = Json(evals);
                m["inconclusive"] = Json(inconclusive);
                m["nontrivial"] = Json(nontrivial);
                m["faults"] = mapToJson(faults);
                m["probes"] = mapToJson(probes);
                m["signames"] = mapToJson(sigNames);
                Json a = Json::array();
                for (auto s : sigs)
                    a.push(fmt("%016llx", (unsigned long long)s));
                m["sigs"] = a;
                Json b = Json::array();
                for (auto s : inter)
                    b.push(fmt("%016llx", (unsigned long long)s));
                m["inter"] = b;
                m["sim_s"] = simS;
                m["samples"] = samples;
                m["hashes"] = hashes;
                *this = Batch();
                return m.dump() + "\n";
            }
        };

        [[noreturn]] void workerMain(int w, int fd, Shared *sh, long cases, double deadline)
        {
            Engine &e = *g_engine;
            const Options &o = g_opt;
            Batch batch;
            double lastFlush = nowWall();
            int sampled = 0;
            long violSent = 0, handled = 0;
            bool recycle = false;
            for (;;)
            {
                // a worker that runs cases in-process is replaced by a fresh one every 8000 cases: what a case leaves behind
                // in the process (library leaks under detect_leaks=0, allocator quarantine) must not pile up over a long search
                if (!e.forkPerCase() && handled++ >= 8000)
                {
                    recycle = true;
                    break;
                }
                if (sh->stop.load())
                    break;
                if (nowWall() > deadline)
                    break;
                long i = sh->next.fetch_add(1);
                if (i >= cases)
                    break;
                sh->since[w].store((long)nowWall());
                sh->cur[w].store(i);
                uint64_t cs = caseSeed(o, i);
                Json plan = e.generate(o, cs, i);
                CaseResult r;
                if (e.forkPerCase())
                    r = runIsolated(plan, w);
                else
                {
                    try
                    {
                        r = e.run(o, plan);
                    }
                    catch (std::exception &ex)
                    {
                        int st = 0;
                        char *dn = abi::__cxa_demangle(typeid(ex).name(), nullptr, nullptr, &st);
                        r.vclass = o.prop + ".exception type=" + (dn ? dn : typeid(ex).name());
                        r.detail = ex.what();
                        free(dn);
                    }
                }
                sh->cur[w].store(-1);
                // keep the first two cases each worker sees and then a sparse sample
                bool sample = (sampled < 1) || (r.nontrivial && sampled < 3 && (i % 7 == 0));
                if (sample)
                    sampled++;
                batch.add(r, i, plan, !o.hashes.empty(), sample);
                if (!r.vclass.empty() && violSent < 200)
                {
                    violSent++;
                    Json m = Json::object();
                    m["t"] = "viol";
                    m["index"] = Json(i);
                    m["seed"] = fmt("%llu", (unsigned long long)cs);
                    m["plan"] = plan;
                    m["vclass"] = r.vclass;
                    m["detail"] = r.detail;
                    m["trace"] = fmt("%016llx", (unsigned long long)r.trace);
                    writeAll(fd, m.dump() + "\n");
                }
                double t = nowWall();
                if (t - lastFlush > 0.3)
                {
                    writeAll(fd, batch.flush());
                    lastFlush = t;
                }
            }
            writeAll(fd, batch.flush());
            writeAll(fd, recycle ? "{\"t\":\"recycle\"}\n" : "{\"t\":\"done\"}\n");
            close(fd);
            fflush(stdout);
            _exit(0);
        }

        void mergeMsg(Agg &agg, const Json &m, bool *done, bool *recycle = nullptr)
        {
            std::string t = m.gets("t");
            if (t == "batch")
            {
                agg.evals += m.geti("evals");
                agg.inconclusive += m.geti("inconclusive");
                agg.nontrivialCases += m.geti("nontrivial");
                jsonToMap(m["faults"], agg.faults);
                jsonToMap(m["probes"], agg.probes);
                jsonToMap(m["signames"], agg.sigNames);
                for (auto &s : m["sigs"].items())
                    agg.sigs.insert(strtoull(s.s().c_str(), nullptr, 16));
                for (auto &s : m["inter"].items())
                    agg.inter.insert(strtoull(s.s().c_str(), nullptr, 16));
                agg.simS += m.getd("sim_s");
                for (auto &s : m["samples"].items())
                    if (agg.samples.size() < 48)
                        agg.samples.push_back(s);
                for (auto &h : m["hashes"].items())
                    agg.hashes.emplace_back(h.at(0).i(), h.at(1).s() + " " + h.at(2).s());
            }
            else if (t == "viol")
            {
                Violation v;
                v.index = m.geti("index");
                v.seed = strtoull(m.gets("seed").c_str(), nullptr, 10);
                v.plan = m["plan"];
                v.vclass = m.gets("vclass");
                v.detail = m.gets("detail");
                v.trace = strtoull(m.gets("trace").c_str(), nullptr, 16);
                agg.violCount[v.vclass]++;
                auto it = agg.viol.find(v.vclass);
                if (it == agg.viol.end() || v.index < it->second.index)
                    agg.viol[v.vclass] = v;
            }
            else if (t == "done")
                *done = true;
            else if (t == "recycle")
            {
                *done = true;
                agg.recycles++;
                if (recycle)
                    *recycle = true;
            }
        }

        // ---- known findings -----------------------------------------------------------------------
        struct Known
        {
            std::string property, signature, status, what;
        };
        std::vector<Known> loadKnown(const std::string &path)
        {
            std::vector<Known> k;
            if (path.empty())
                return k;
            try
            {
                Json j = Json::parseFile(path);
                for (auto &f : j["findings"].items())
                    k.push_back({f.gets("property"), f.gets("signature"), f.gets("status"), f.gets("what")});
            }
            catch (std::exception &ex)
            {
                fprintf(stderr, "cannot read known findings %s: %s\n", path.c_str(), ex.what());
                exit(2);
            }
            return k;
        }
        const Known *matchKnown(const std::vector<Known> &k, const std::string &prop, const std::string &vclass)
        {
            for (auto &f : k)
            {
                if (f.status != "open" || f.property != prop || f.signature.empty())
                    continue;
                std::string sig = f.signature, cls = vclass;
                // "<prop>.* key=value": any clause, for a component that is broken beyond a single clause
                size_t star = sig.find(".* ");
                if (star != std::string::npos)
                {
                    size_t sp = cls.find(' ');
                    if (sp == std::string::npos || cls.compare(0, star + 1, sig, 0, star + 1) != 0)
                        continue;
                    sig = sig.substr(star + 3);
                    cls = cls.substr(sp + 1);
                }
                if (cls.compare(0, sig.size(), sig) == 0 && (cls.size() == sig.size() || cls[sig.size()] == ' '))
                    return &f;
            }
            return nullptr;
        }

        // ---- shrinking ----------------------------------------------------------------------------
        struct Shrinker
        {
            std::string vclass;
            double deadline;
            long runs = 0;
            bool holds(const Json &plan)
            {
                if (nowWall() > deadline)
                    return false;
                runs++;
                CaseResult r = runIsolated(plan, 200);
                return r.vclass == vclass;
            }
            Json shrink(Json plan)
            {
                // 1. ddmin over plan["ops"]
                if (plan["ops"].isArr())
                {
                    std::vector<Json> ops = plan["ops"].items();
                    size_t n = 2;
                    while (ops.size() >= 2 && nowWall() < deadline)
                    {
                        size_t chunk = (ops.size() + n - 1) / n;
                        bool reduced = false;
                        for (size_t start = 0; start < ops.size() && !reduced; start += chunk)
                        {
                            std::vector<Json> cand;
                            for (size_t k = 0; k < ops.size(); k++)
                                if (k < start || k >= start + chunk)
                                    cand.push_back(ops[k]);
                            Json p = plan;
                            p["ops"] = Json::array();
                            for (auto &c : cand)
                                p["ops"].push(c);
                            if (holds(p))
                            {
                                ops = cand;
                                plan = p;
                                n = std::max<size_t>(n - 1, 2);
                                reduced = true;
                            }
                        }
                        if (!reduced)
                        {
                            if (chunk == 1)
                                break;
                            n = std::min(n * 2, ops.size());
                        }
                    }
                    // single removals, last pass
                    for (size_t k = ops.size(); k-- > 0 && ops.size() > 1 && nowWall() < deadline;)
                    {
                        std::vector<Json> cand = ops;
                        cand.erase(cand.begin() + (long)k);
                        Json p = plan;
                        p["ops"] = Json::array();
                        for (auto &c : cand)
                            p["ops"].push(c);
                        if (holds(p))
                        {
                            ops = cand;
                            plan = p;
                        }
                    }
                }
                // 2. engine-specific simplifications to a fixpoint
                bool progress = true;
                int rounds = 0;
                while (progress && nowWall() < deadline && rounds++ < 200)
                {
                    progress = false;
                    for (auto &cand : g_engine->simplifications(plan))
                    {
                        if (cand == plan)
                            continue;
                        if (holds(cand))
                        {
                            plan = cand;
                            progress = true;
                            break;
                        }
                        if (nowWall() > deadline)
                            break;
                    }
                }
                return plan;
            }
        };

        std::string sanitizeName(const std::string &s)
        {
            std::string o;
            for (char c : s)
                o += (isalnum((unsigned char)c) || c == '-' || c == '.') ? c : '_';
            return o.substr(0, 80);
        }

        void usage()
        {
            fprintf(stderr, "usage: engine --prop Cxx [--tier quick|thorough] [--seed N] [--jobs N] [--cases N] "
                            "[--budget S] [--out F] [--replay F [--expect CLASS]] [--known F] [--case I] [--hashes F]\n");
        }
    }  // namespace

    void finishCaseNow(const CaseResult &r)
    {
        if (g_childFd < 0)
            throw std::runtime_error("finishCaseNow outside a forked case");
        Json m = Json::object();
        m["t"] = "result";
        m["r"] = r.toJson();
        writeAll(g_childFd, m.dump() + "\n");
        fflush(nullptr);
        _exit(0);
    }

    int engineMain(Engine &e, int argc, char **argv)
    {
        g_engine = &e;
        Options &o = g_opt;
        if (const char *s = getenv("VERIF_SEED"))
            o.seed = strtoull(s, nullptr, 10);
        if (const char *s = getenv("VERIF_TIER"))
            o.tier = s;
        for (int a = 1; a < argc; a++)
        {
            std::string k = argv[a];
            auto val = [&]() -> std::string {
                if (a + 1 >= argc)
                {
                    usage();
                    exit(2);
                }
                return argv[++a];
            };
            if (k == "--prop")
                o.prop = val();
            else if (k == "--tier")
                o.tier = val();
            else if (k == "--seed")
                o.seed = strtoull(val().c_str(), nullptr, 10);
            else if (k == "--jobs")
                o.jobs = atoi(val().c_str());
            else if (k == "--cases")
                o.cases = atol(val().c_str());
            else if (k == "--budget")
                o.budget = atof(val().c_str());
            else if (k == "--out")
                o.out = val();
            else if (k == "--replay")
                o.replay = val();
            else if (k == "--expect")
                o.expect = val();
            else if (k == "--known")
                o.known = val();
            else if (k == "--variant")
                o.variant = val();
            else if (k == "--hashes")
                o.hashes = val();
            else if (k == "--case")
                o.onlyCase = atol(val().c_str());
            else if (k == "--replay-dir")
                o.replayDir = val();
            else if (k == "--tmp-dir")
                o.tmpDir = val();
            else if (k.compare(0, 2, "--") == 0)
                o.extra[k.substr(2)] = val();
            else
            {
                usage();
                return 2;
            }
        }
        if (o.tier != "quick" && o.tier != "thorough")
            o.tier = "quick";
        // address layout is part of the simulated environment: fixed unless a check varies it on purpose
        if (!getenv("VERIF_KEEP_ASLR"))
        {
            int pers = personality(0xffffffff);
            if (pers != -1 && !(pers & ADDR_NO_RANDOMIZE))
            {
                if (personality(pers | ADDR_NO_RANDOMIZE) != -1)
                {
                    setenv("VERIF_KEEP_ASLR", "0", 1);  // marker: already re-executed
                    execv("/proc/self/exe", argv);
                }
            }
        }
        if (o.jobs < 1)
            o.jobs = 1;
        if (o.jobs > 200)
            o.jobs = 200;
        mkdir(o.tmpDir.c_str(), 0755);
        atexit(childExitReport);  // registered first => runs after every destructor registered later
        signal(SIGPIPE, SIG_IGN);

        // ---- replay -------------------------------------------------------------------------------
        if (!o.replay.empty())
        {
            Json rf;
            try
            {
                rf = Json::parseFile(o.replay);
            }
            catch (std::exception &ex)
            {
                fprintf(stderr, "replay: %s\n", ex.what());
                return 2;
            }
            if (o.prop.empty())
                o.prop = rf.gets("property");
            e.init(o);
            CaseResult r = runIsolated(rf["plan"], 0);
            std::string expect = o.expect.empty() ? rf.gets("vclass") : o.expect;
            printf("replay %s: class=\"%s\" detail=\"%s\" trace=%016llx\n", o.replay.c_str(), r.vclass.c_str(),
                   r.detail.c_str(), (unsigned long long)r.trace);
            if (!r.vclass.empty() && (expect.empty() || r.vclass == expect))
            {
                printf("VIOLATION property=%s replay=%s\n", o.prop.c_str(), o.replay.c_str());
                return 1;
            }
            if (!r.vclass.empty())
            {
                printf("replay produced a different violation class than recorded (\"%s\")\n", expect.c_str());
                return 3;
            }
            return 0;
        }
        // corpus mode: re-execute every committed replay file of this property that was recorded by this engine and
        // build (violations found earlier - repaired defects and seeded changes); any that reproduces is a violation
        if (!o.get("corpus").empty())
        {
            e.init(o);
            std::vector<std::string> files;
            if (DIR *d = opendir(o.get("corpus").c_str()))
            {
                while (struct dirent *de = readdir(d))
                {
                    std::string n = de->d_name;
                    if (n.compare(0, o.prop.size() + 1, o.prop + "-") == 0 && n.size() > 5 && n.compare(n.size() - 5, 5, ".json") == 0)
                        files.push_back(o.get("corpus") + "/" + n);
                }
                closedir(d);
            }
            std::sort(files.begin(), files.end());
            std::vector<Known> known = loadKnown(o.known);
            std::set<std::string> knownPrinted;
            int ran = 0, bad = 0, knownHits = 0;
            for (auto &f : files)
            {
                Json rf;
                try
                {
                    rf = Json::parseFile(f);
                }
                catch (std::exception &)
                {
                    continue;
                }
                if (rf.gets("engine") != e.name() || rf.gets("variant") != o.variant)
                    continue;
                CaseResult r = runIsolated(rf["plan"], 0);
                ran++;
                if (r.vclass.empty())
                    continue;
                if (const Known *k = matchKnown(known, o.prop, r.vclass))
                {
                    knownHits++;
                    if (knownPrinted.insert(k->signature).second)
                        printf("KNOWN-FINDING: property=%s %s [%s] (corpus replay %s: %s)\n", o.prop.c_str(), k->what.c_str(), k->signature.c_str(),
                               f.c_str(), r.detail.c_str());
                    continue;
                }
                bad++;
                printf("violation class=\"%s\" corpus replay %s: %s\n", r.vclass.c_str(), f.c_str(), r.detail.c_str());
                printf("VIOLATION property=%s replay=%s\n", o.prop.c_str(), f.c_str());
            }
            printf("%s %s/%s corpus: %d replay file(s) re-executed, %d violation(s), %d known\n", o.prop.c_str(), e.name().c_str(), o.variant.c_str(), ran,
                   bad, knownHits);
            fflush(stdout);
            return bad ? 1 : 0;
        }

        if (o.prop.empty())
        {
            usage();
            return 2;
        }
        e.init(o);
        long cases = o.cases >= 0 ? o.cases : e.defaultCases(o);
        double budget = o.budget >= 0 ? o.budget : e.defaultBudget(o);

        // ---- single case, verbose -----------------------------------------------------------------
        if (o.onlyCase >= 0)
        {
            uint64_t cs = caseSeed(o, o.onlyCase);
            Json plan = e.generate(o, cs, o.onlyCase);
            printf("case %ld seed %llu plan:\n%s\n", o.onlyCase, (unsigned long long)cs, plan.dump(1).c_str());
            CaseResult r = runIsolated(plan, 0);
            printf("result:\n%s\n", r.toJson().dump(1).c_str());
            return r.vclass.empty() ? 0 : 1;
        }

        // ---- sweep --------------------------------------------------------------------------------
        double t0 = nowWall();
        Shared *sh = (Shared *)mmap(nullptr, sizeof(Shared), PROT_READ | PROT_WRITE, MAP_SHARED | MAP_ANONYMOUS, -1, 0);
        if (sh == MAP_FAILED)
        {
            perror("mmap");
            return 2;
        }
        new (sh) Shared();
        sh->next.store(0);
        sh->stop.store(0);
        for (auto &c : sh->cur)
            c.store(-1);
        for (auto &c : sh->since)
            c.store(0);
        double deadline = t0 + budget;
        struct W
        {
            pid_t pid = -1;
            int fd = -1;
            std::string buf;
            bool done = false, recycle = false;
        };
        std::vector<W> ws((size_t)o.jobs);
        Agg agg;
        std::vector<long> crashed;
        auto spawn = [&](int w) {
            int pfd[2];
            if (pipe(pfd) != 0)
            {
                perror("pipe");
                exit(2);
            }
            fflush(stdout);
            fflush(stderr);
            pid_t c = fork();
            if (c < 0)
            {
                perror("fork");
                exit(2);
            }
            if (c == 0)
            {
                close(pfd[0]);
                for (auto &x : ws)
                    if (x.fd >= 0)
                        close(x.fd);
                if (!getenv("VERIF_WORKER_STDERR"))
                {
                    int dn = open("/dev/null", O_WRONLY);
                    if (dn >= 0)
                    {
                        dup2(dn, 2);
                        close(dn);
                    }
                }
                workerMain(w, pfd[1], sh, cases, deadline);
            }
            close(pfd[1]);
            ws[(size_t)w].pid = c;
            ws[(size_t)w].fd = pfd[0];
            ws[(size_t)w].buf.clear();
            ws[(size_t)w].done = false;
            ws[(size_t)w].recycle = false;
        };
        for (int w = 0; w < o.jobs; w++)
            spawn(w);
        int live = o.jobs;
        int respawns = 0;
        std::map<long, int> crashStatus;
        while (live > 0)
        {
            std::vector<pollfd> pf;
            std::vector<int> idx;
            for (int w = 0; w < o.jobs; w++)
                if (ws[(size_t)w].fd >= 0)
                {
                    pf.push_back({ws[(size_t)w].fd, POLLIN, 0});
                    idx.push_back(w);
                }
            if (pf.empty())
                break;
            int pr = poll(pf.data(), pf.size(), 1000);
            if (pr < 0 && errno != EINTR)
                break;
            // watchdog: an in-process case that has been running far beyond the CPU limit is killed; the dead worker is
            // then handled like a crashed one (its case is classified in an isolated child under the CPU rlimit)
            if (!e.forkPerCase())
            {
                long nowS = (long)nowWall();
                for (int w = 0; w < o.jobs; w++)
                    if (ws[(size_t)w].fd >= 0 && sh->cur[(size_t)w].load() >= 0 && sh->since[(size_t)w].load() > 0 &&
                        nowS - sh->since[(size_t)w].load() > 3 * e.cpuLimit(o) + 10)
                    {
                        kill(ws[(size_t)w].pid, SIGKILL);
                        sh->since[(size_t)w].store(0);
                    }
            }
            for (size_t k = 0; k < pf.size(); k++)
            {
                if (!(pf[k].revents & (POLLIN | POLLHUP | POLLERR)))
                    continue;
                W &w = ws[(size_t)idx[k]];
                char tmp[65536];
                ssize_t n = read(w.fd, tmp, sizeof tmp);
                if (n > 0)
                {
                    w.buf.append(tmp, (size_t)n);
                    size_t pos = 0, e2;
                    while ((e2 = w.buf.find('\n', pos)) != std::string::npos)
                    {
                        try
                        {
                            mergeMsg(agg, Json::parse(w.buf.substr(pos, e2 - pos)), &w.done, &w.recycle);
                        }
                        catch (std::exception &ex)
                        {
                            fprintf(stderr, "runner: bad worker message: %s\n", ex.what());
                        }
                        pos = e2 + 1;
                    }
                    w.buf.erase(0, pos);
                }
                else if (n == 0 || (n < 0 && errno != EINTR && errno != EAGAIN))
                {
                    close(w.fd);
                    w.fd = -1;
                    int st = 0;
                    while (waitpid(w.pid, &st, 0) < 0 && errno == EINTR)
                    {
                    }
                    if (w.done && w.recycle && nowWall() < deadline && !sh->stop.load())
                    {
                        // planned replacement of an in-process worker (see workerMain)
                        spawn(idx[k]);
                        continue;
                    }
                    if (!w.done)
                    {
                        // the worker died inside an in-process case: remember it, classify it in isolation below
                        long ci = sh->cur[(size_t)idx[k]].load();
                        if (ci >= 0)
                        {
                            crashed.push_back(ci);
                            crashStatus[ci] = st;
                        }
                        sh->cur[(size_t)idx[k]].store(-1);
                        if (respawns++ < 100000 && nowWall() < deadline)
                        {
                            spawn(idx[k]);
                            continue;
                        }
                    }
                    live--;
                }
            }
        }
        double tSearch = nowWall() - t0;
        bool budgetExhausted = sh->next.load() < cases;
        long attempted = std::min(sh->next.load(), cases);

        // crashed in-process cases: classify in a forked child
        std::sort(crashed.begin(), crashed.end());
        long unclassifiedCrashes = 0;
        for (long ci : crashed)
        {
            if (agg.violCount.size() >= 1 && &ci - &crashed[0] >= 40)
            {
                unclassifiedCrashes++;  // same search already produced classified crashes; do not spend the budget
                agg.evals++;
                continue;
            }
            uint64_t cs = caseSeed(o, ci);
            Json plan = e.generate(o, cs, ci);
            CaseResult r = runIsolated(plan, 201);
            agg.evals++;
            if (r.vclass.empty())
            {
                // the case does not fail on its own: the death of the worker says nothing about this plan (memory pressure,
                // a kill from outside, something an earlier case left in the process). A verdict must be a function of the
                // plan, so this is counted, with the wait status, and not judged.
                int stw = crashStatus.count(ci) ? crashStatus[ci] : 0;
                agg.inconclusive++;
                agg.probes[WIFSIGNALED(stw) ? fmt("worker-died-not-reproducible-in-isolation(signal-%d)", WTERMSIG(stw))
                                            : fmt("worker-died-not-reproducible-in-isolation(exit-%d)", WEXITSTATUS(stw))]++;
                continue;
            }
            Violation v;
            v.index = ci;
            v.seed = cs;
            v.plan = plan;
            v.vclass = r.vclass;
            v.detail = r.detail;
            v.trace = r.trace;
            agg.violCount[v.vclass]++;
            auto it = agg.viol.find(v.vclass);
            if (it == agg.viol.end() || v.index < it->second.index)
                agg.viol[v.vclass] = v;
        }

        // ---- violations: known-finding match, gate, shrink, replay --------------------------------------
        std::vector<Known> known = loadKnown(o.known);
        int exitCode = 0;
        Json violJ = Json::array(), knownJ = Json::array();
        mkdir(o.replayDir.c_str(), 0755);
        int processed = 0;
        std::set<std::string> knownPrinted, reclassDone;
        for (auto &pv : agg.viol)
        {
            Violation &v = pv.second;
            Json rec = Json::object();
            rec["class"] = v.vclass;
            rec["detail"] = v.detail;
            rec["case"] = Json(v.index);
            rec["count"] = Json(agg.violCount[v.vclass]);
            if (const Known *k = matchKnown(known, o.prop, v.vclass))
            {
                if (knownPrinted.insert(k->signature).second)
                    printf("KNOWN-FINDING: property=%s %s [%s] (case %ld: %s)\n", o.prop.c_str(), k->what.c_str(),
                           k->signature.c_str(), v.index, v.detail.c_str());
                rec["known_signature"] = k->signature;
                knownJ.push(rec);
                continue;
            }
            // gate 1: the verdict that counts is the one an isolated child gives (an in-process worker may carry
            // memory damage from an earlier crashing case in a non-sanitized build): same plan twice in isolated
            // children => same class and same trace hash
            CaseResult r1 = runIsolated(v.plan, 202), r2 = runIsolated(v.plan, 203);
            if (r1.vclass.empty() || r1.vclass != r2.vclass || r1.trace != r2.trace)
            {
                printf("HARNESS-NONDETERMINISM property=%s case=%ld class=\"%s\" rerun1=\"%s\" rerun2=\"%s\" "
                       "trace1=%016llx trace2=%016llx\n",
                       o.prop.c_str(), v.index, v.vclass.c_str(), r1.vclass.c_str(), r2.vclass.c_str(),
                       (unsigned long long)r1.trace, (unsigned long long)r2.trace);
                rec["gate"] = "not reproducible";
                violJ.push(rec);
                exitCode = std::max(exitCode, 2);
                continue;
            }
            if (r1.vclass != v.vclass)
            {
                // reclassified in isolation; if that class is already handled (or known), skip the duplicate
                rec["class_in_worker"] = v.vclass;
                v.vclass = r1.vclass;
                v.detail = r1.detail;
                rec["class"] = v.vclass;
                rec["detail"] = v.detail;
                if (const Known *k = matchKnown(known, o.prop, v.vclass))
                {
                    if (knownPrinted.insert(k->signature).second)
                        printf("KNOWN-FINDING: property=%s %s [%s] (case %ld: %s)\n", o.prop.c_str(), k->what.c_str(),
                               k->signature.c_str(), v.index, v.detail.c_str());
                    rec["known_signature"] = k->signature;
                    knownJ.push(rec);
                    continue;
                }
                if (!reclassDone.insert(v.vclass).second || agg.viol.count(v.vclass))
                    continue;
            }
            Json plan = v.plan;
            long shrinkRuns = 0;
            if (processed < 6)
            {
                Shrinker s;
                s.vclass = v.vclass;
                s.deadline = nowWall() + (o.thorough() ? 60 : 20);
                plan = s.shrink(plan);
                shrinkRuns = s.runs;
            }
            processed++;
            CaseResult rs = runIsolated(plan, 204);
            if (rs.vclass != v.vclass)
            {
                plan = v.plan;  // should not happen; fall back to the unshrunk plan
                rs = r1;
            }
            Json rf = Json::object();
            rf["property"] = o.prop;
            rf["engine"] = e.name();
            rf["variant"] = o.variant;
            rf["verif_seed"] = fmt("%llu", (unsigned long long)o.seed);
            rf["case_index"] = Json(v.index);
            rf["case_seed"] = fmt("%llu", (unsigned long long)v.seed);
            rf["vclass"] = v.vclass;
            rf["detail"] = rs.detail;
            rf["trace"] = fmt("%016llx", (unsigned long long)rs.trace);
            rf["shrink_runs"] = Json(shrinkRuns);
            rf["original_ops"] = Json((long)v.plan["ops"].size());
            rf["plan"] = plan;
            std::string path = o.replayDir + "/" + o.prop + "-" + sanitizeName(v.vclass.substr(o.prop.size() + 1)) +
                               fmt("-%llu.json", (unsigned long long)v.seed);
            rf.writeFile(path);
            // gate 2: fresh process replay must fail the same way
            std::string cmd = std::string("VERIF_KEEP_ASLR= /proc/self/exe");
            fflush(stdout);
            pid_t c = fork();
            int st = 0;
            if (c == 0)
            {
                int dn = open("/dev/null", O_WRONLY);
                dup2(dn, 1);
                unsetenv("VERIF_KEEP_ASLR");
                execl("/proc/self/exe", argv[0], "--replay", path.c_str(), "--prop", o.prop.c_str(), "--expect",
                      v.vclass.c_str(), "--tmp-dir", o.tmpDir.c_str(), "--tier", o.tier.c_str(), (char *)nullptr);
                _exit(127);
            }
            while (waitpid(c, &st, 0) < 0 && errno == EINTR)
            {
            }
            if (!(WIFEXITED(st) && WEXITSTATUS(st) == 1))
            {
                printf("HARNESS-NONDETERMINISM property=%s case=%ld class=\"%s\": fresh-process replay of %s did not "
                       "reproduce (status %d)\n",
                       o.prop.c_str(), v.index, v.vclass.c_str(), path.c_str(), st);
                rec["gate"] = "fresh replay failed";
                violJ.push(rec);
                exitCode = std::max(exitCode, 2);
                continue;
            }
            printf("violation class=\"%s\" case=%ld seed=%llu ops %zu -> %zu (%ld shrink runs): %s\n", v.vclass.c_str(),
                   v.index, (unsigned long long)v.seed, v.plan["ops"].size(), plan["ops"].size(), shrinkRuns,
                   rs.detail.c_str());
            printf("VIOLATION property=%s replay=%s\n", o.prop.c_str(), path.c_str());
            {
                // the shrunk plan itself, on one line: a log of the run is then enough to replay the violation elsewhere
                std::string pj = plan.dump();
                for (char &ch : pj)
                    if (ch == '\n')
                        ch = ' ';
                printf("REPLAY-PLAN %s\n", pj.c_str());
            }
            rec["replay"] = path;
            violJ.push(rec);
            exitCode = std::max(exitCode, 1);
        }
        double wall = nowWall() - t0;

        // ---- result json --------------------------------------------------------------------------
        Json res = Json::object();
        res["property_id"] = o.prop;
        res["engine"] = e.name();
        res["variant"] = o.variant;
        res["tier"] = o.tier;
        res["seed"] = Json((long long)(o.seed & 0x7fffffffffffffffULL));
        res["wall_s"] = wall;
        res["search_s"] = tSearch;
        res["evaluations"] = Json(agg.evals);
        res["cases_planned"] = Json(cases);
        res["cases_attempted"] = Json(attempted);
        res["budget_exhausted"] = budgetExhausted;
        res["inconclusive"] = Json(agg.inconclusive);
        res["nontrivial_cases"] = Json(agg.nontrivialCases);
        res["distinct_nontrivial"] = Json((long)agg.sigs.size());
        res["distinct_interleavings"] = Json((long)agg.inter.size());
        res["runs_per_hour"] = tSearch > 0 ? (double)agg.evals / tSearch * 3600.0 : 0.0;
        res["simulated_seconds"] = agg.simS;
        res["faults_fired"] = mapToJson(agg.faults);
        res["probes"] = mapToJson(agg.probes);
        {
            // the most frequent signatures, for the reader
            std::vector<std::pair<long, std::string>> top;
            for (auto &p : agg.sigNames)
                top.emplace_back(p.second, p.first);
            std::sort(top.rbegin(), top.rend());
            Json tj = Json::object();
            for (size_t k = 0; k < top.size() && k < 40; k++)
                tj[top[k].second] = Json(top[k].first);
            res["top_signatures"] = tj;
        }
        res["rule"] = e.rule(o);
        res["real_components"] = Json::arrayOf(e.realComponents(o));
        res["stub_components"] = Json::arrayOf(e.stubComponents(o));
        res["assumptions"] = Json::arrayOf(e.assumptions(o));
        Json samples = Json::array();
        for (size_t k = 0; k < agg.samples.size() && k < 5; k++)
            samples.push(agg.samples[k * std::max<size_t>(1, agg.samples.size() / 5) % agg.samples.size()]);
        res["samples"] = samples;
        res["violations"] = violJ;
        res["known_findings_hit"] = knownJ;
        res["worker_respawns"] = Json(respawns);
        res["worker_recycles"] = Json(agg.recycles);
        res["unclassified_crashes"] = Json(unclassifiedCrashes);
        res["exit_code"] = Json(exitCode);
        std::vector<std::string> zeroProbes;
        for (auto &p : agg.probes)
            if (p.second == 0)
                zeroProbes.push_back(p.first);
        res["probes_stuck_at_zero"] = Json::arrayOf(zeroProbes);
        if (!o.out.empty())
            res.writeFile(o.out);
        if (!o.hashes.empty())
        {
            std::sort(agg.hashes.begin(), agg.hashes.end());
            FILE *f = fopen(o.hashes.c_str(), "w");
            if (f)
            {
                for (auto &h : agg.hashes)
                    fprintf(f, "%ld %s\n", h.first, h.second.c_str());
                fclose(f);
            }
        }
        printf("%s %s/%s[%s]: %ld cases (%ld non-trivial, %zu distinct signatures, %zu interleavings) in %.1fs "
               "(%.0f/h), sim %.1fs, %zu violation class(es), %zu known, exit %d%s\n",
               o.prop.c_str(), e.name().c_str(), o.variant.c_str(), o.tier.c_str(), agg.evals, agg.nontrivialCases,
               agg.sigs.size(), agg.inter.size(), wall, tSearch > 0 ? agg.evals / tSearch * 3600.0 : 0.0, agg.simS,
               violJ.size(), knownJ.size(), exitCode, budgetExhausted ? " [budget exhausted]" : "");
        for (auto &z : zeroProbes)
            printf("  warning: probe '%s' never hit\n", z.c_str());
        fflush(stdout);
        return exitCode;
    }
}  // namespace sim

// Sanitizer configuration compiled into every engine (non-inline, default visibility, so the runtimes find it).
// Leak checking is off: leaks of *states* are accounted by the harness ledger at process exit; other leaks are
// outside the properties (DESIGN C03, C09).  Exit code 77 classifies a sanitizer abort.
extern "C" __attribute__((used, visibility("default"))) const char *__asan_default_options()
{
    return "detect_leaks=0:exitcode=77:abort_on_error=0:allocator_may_return_null=1:detect_stack_use_after_return=0:"
           "handle_abort=1:check_initialization_order=0:detect_odr_violation=0";
}
extern "C" __attribute__((used, visibility("default"))) const char *__ubsan_default_options()
{
    return "print_stacktrace=1:halt_on_error=1:exitcode=77";
}
extern "C" __attribute__((used, visibility("default"))) const char *__tsan_default_options()
{
    return "exitcode=66:halt_on_error=1:report_signal_unsafe=0:second_deadlock_stack=1:history_size=4";
}
