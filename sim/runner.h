// Seeded-search runner shared by every engine: derives case seeds from VERIF_SEED, runs cases on
// forked workers (in-process micro cases, or one forked child per case for planner-level engines),
// gates / shrinks / replays violations, matches known findings, and writes the result JSON the
// driver turns into evidence/<id>.json.            (DESIGN.md 3.1-3.3, 3.9, 3.10, 3.13)
#pragma once
#include "sim/json.h"
#include "sim/prng.h"

#include <functional>
#include <map>
#include <set>
#include <string>
#include <vector>

namespace sim
{
    struct CaseResult
    {
        std::string vclass;  // empty: property held on this case. Otherwise "<prop>.<clause> key=val ..." (stable!)
        std::string detail;  // human-readable, may contain numbers
        uint64_t trace = 0;  // hash of everything observable in the case (determinism gate)
        std::string sig;     // coarse signature of what the case exercised (distinctness measure)
        bool nontrivial = false;
        bool inconclusive = false;  // e.g. wall-clock watchdog: counted, never judged
        std::map<std::string, long> faults;  // fault kinds that actually fired
        std::map<std::string, long> probes;  // rare-branch counters
        double simSeconds = 0;               // simulated time covered
        std::vector<uint64_t> interleavings;  // schedule hashes of this case
        Json info;                            // outcome summary (shown in evidence samples)

        Json toJson() const;
        static CaseResult fromJson(const Json &j);
        void violate(const std::string &cls, const std::string &det)
        {
            if (vclass.empty())
            {
                vclass = cls;
                detail = det;
            }
        }
    };

    struct Options
    {
        std::string prop;
        std::string tier = "quick";
        uint64_t seed = 1;
        int jobs = 16;
        long cases = -1;       // <0: engine default for the tier
        double budget = -1;    // seconds of search; <0: engine default
        std::string out;       // result json path
        std::string replay;    // replay file to execute
        std::string expect;    // with --replay: expected violation class
        std::string known;     // known_findings.json
        std::string variant = "plain";
        std::string hashes;    // write "index trace vclass" lines here (determinism self-test)
        long onlyCase = -1;    // run one case index verbosely
        std::string replayDir = "replays";
        std::string tmpDir = "build/tmp";
        std::map<std::string, std::string> extra;  // engine-specific --key value
        bool thorough() const
        {
            return tier == "thorough";
        }
        std::string get(const std::string &k, const std::string &d = "") const
        {
            auto it = extra.find(k);
            return it == extra.end() ? d : it->second;
        }
    };

    class Engine
    {
    public:
        virtual ~Engine() = default;
        virtual std::string name() const = 0;
        // one forked child per case (planner-level engines) or many cases per worker process
        virtual bool forkPerCase() const
        {
            return false;
        }
        virtual long defaultCases(const Options &) const
        {
            return 1000;
        }
        virtual double defaultBudget(const Options &o) const
        {
            return o.thorough() ? 900 : 40;
        }
        // CPU seconds a single case may use before it is classified as a hang
        virtual int cpuLimit(const Options &) const
        {
            return 60;
        }
        virtual void init(const Options &)
        {
        }
        // plan = pure function of (property, caseSeed, tier)
        virtual Json generate(const Options &o, uint64_t caseSeed, long index) = 0;
        // execute a plan against the real library; must not consult anything but the plan
        virtual CaseResult run(const Options &o, const Json &plan) = 0;
        // fork-per-case only: called in the child from an atexit handler, i.e. after the static
        // destructors registered during the case have run; result is passed to judgeExit()
        virtual void atChildExit(Json &)
        {
        }
        virtual void judgeExit(const Options &, const Json & /*plan*/, CaseResult &, const Json & /*exitInfo*/)
        {
        }
        // appended to crash / hang classes so that they name the component that died (e.g. " planner=RRT")
        virtual std::string crashContext(const Json & /*plan*/) const
        {
            return "";
        }
        // false: crashes and hangs are outside this property's statement (another property's check judges them);
        // such cases are counted as inconclusive here
        virtual bool judgesCrashes(const Options &) const
        {
            return true;
        }
        // engine-specific plan simplifications tried after ddmin over plan["ops"]
        virtual std::vector<Json> simplifications(const Json & /*plan*/)
        {
            return {};
        }
        // evidence texts
        virtual std::string rule(const Options &) const = 0;
        virtual std::vector<std::string> realComponents(const Options &) const = 0;
        virtual std::vector<std::string> stubComponents(const Options &) const = 0;
        virtual std::vector<std::string> assumptions(const Options &) const
        {
            return {};
        }
    };

    // entry point used by every engine's main()
    int engineMain(Engine &e, int argc, char **argv);

    // fork-per-case engines: report `r` now and leave the child without running any destructor or exit
    // accounting (used when the system under test was abandoned mid-operation, e.g. step budget exhausted)
    [[noreturn]] void finishCaseNow(const CaseResult &r);

    // helpers for engines
    std::string fmt(const char *f, ...) __attribute__((format(printf, 1, 2)));
}  // namespace sim
