/* Futex hand-off for the serialising scheduler. Compiled WITHOUT sanitizers on purpose: TSan must not
 * see a happens-before edge created by the scheduler (DESIGN 2). */
#define _GNU_SOURCE
#include <linux/futex.h>
#include <sys/syscall.h>
#include <unistd.h>

static long fut(int *a, int op, int v)
{
    return syscall(SYS_futex, a, op, v, 0, 0, 0);
}
/* park until *go becomes non-zero, then consume it */
void sim_handoff_park(int *go)
{
    for (;;)
    {
        int g = __atomic_load_n(go, __ATOMIC_SEQ_CST);
        if (g)
        {
            __atomic_store_n(go, 0, __ATOMIC_SEQ_CST);
            return;
        }
        fut(go, FUTEX_WAIT, 0);
    }
}
void sim_handoff_release(int *go)
{
    __atomic_store_n(go, 1, __ATOMIC_SEQ_CST);
    fut(go, FUTEX_WAKE, 1);
}
