// Serialising scheduler, simulated clock and link-time interposers (DESIGN 2, 3.4, 3.5).
//
// Real threads, parked and released one at a time: any thread created while the simulator is active
// (through the interposed pthread_create, so every std::thread the library starts is included) runs
// only while it holds the single run token.  Yield points: interposed pthread_mutex_lock/unlock,
// pthread_create/join, nanosleep, sched_yield, thread exit, and explicit sim::sched::yield() calls
// from harness callbacks.  clock_gettime returns simulated time for every clock id.
// Who runs next is decided by the seeded scheduler stream alone.
#pragma once
#include <cstdint>
#include <functional>
#include <string>
#include <vector>

namespace sim
{
    namespace sched
    {
        enum Policy
        {
            RANDOM = 0,        // uniform choice among runnable threads at every yield point
            PCT = 1,           // random priorities, d priority change points (Burckhardt et al.)
            ROUND_ROBIN = 2,   // quantum of q yield points, random q
            RUN_TO_BLOCK = 3,  // no preemption: switch only when the running thread blocks / exits
        };
        struct Config
        {
            uint64_t seed = 1;
            int policy = RANDOM;
            int pctDepth = 2;
            long pctHorizon = 2000;        // yield points over which PCT change points are spread
            long quantum = 8;              // ROUND_ROBIN
            long long costNs = 10000;      // simulated cost of one yield point
            long long costJitterNs = 0;    // uniform extra cost in [0, jitter]
            long long epochNs = 1700000000LL * 1000000000LL;
            long maxYields = 50000000;     // step budget (onBudget is called when exceeded)
            int starveThread = -1;         // bounded starvation fault: this thread is not scheduled ...
            long starveYields = 0;         // ... for this many yield points (unless it is the only runnable one)
        };
        struct Stats
        {
            long yields = 0, switches = 0, threads = 0, sleeps = 0, clockJumps = 0, mutexBlocks = 0, starved = 0;
            uint64_t scheduleHash = 0;
            double simSeconds = 0;
        };

        // start: the calling thread becomes simulated thread 0. stop: only thread 0 may call it; it first lets every
        // other simulated thread run to completion (they must be able to finish) unless abandon is true.
        void start(const Config &cfg);
        Stats stop(bool abandon = false);
        bool active();
        int self();  // simulated thread id of the caller, -1 if not a simulated thread

        void yield();                 // explicit yield point (harness callbacks)
        long long nowNs();            // simulated clock
        void advanceClock(long long ns);  // clock fault: jump (ns may be negative only in labelled configurations)
        void stallClock(long yields);     // clock fault: the next `yields` yield points cost nothing
        Stats stats();

        // called (on the thread that detects it) when nothing is runnable and nobody sleeps / when the step budget is
        // exhausted. Defaults print and _exit(3) / _exit(4).
        extern std::function<void(const std::string &)> onDeadlock;
        extern std::function<void()> onBudget;

        // simulated threads created by the harness itself; usable in builds without interposers too (TSan variant)
        int spawn(std::function<void()> fn);
        void join(int tid);
    }  // namespace sched
}  // namespace sim
