// Deterministic PRNG for the simulator. One 64-bit integer (VERIF_SEED) decides everything:
// case seeds are derived by mixing, sub-streams by label.  Never seeded from a clock.
#pragma once
#include <cstdint>
#include <cstring>
#include <string>
#include <vector>
#include <cmath>

namespace sim
{
    inline uint64_t splitmix64(uint64_t &x)
    {
        uint64_t z = (x += 0x9E3779B97F4A7C15ULL);
        z = (z ^ (z >> 30)) * 0xBF58476D1CE4E5B9ULL;
        z = (z ^ (z >> 27)) * 0x94D049BB133111EBULL;
        return z ^ (z >> 31);
    }

    inline uint64_t fnv1a(const void *p, size_t n, uint64_t h = 1469598103934665603ULL)
    {
        const unsigned char *c = (const unsigned char *)p;
        for (size_t i = 0; i < n; i++)
        {
            h ^= c[i];
            h *= 1099511628211ULL;
        }
        return h;
    }
    inline uint64_t fnv1a(const std::string &s, uint64_t h = 1469598103934665603ULL)
    {
        return fnv1a(s.data(), s.size(), h);
    }
    inline uint64_t hashU64(uint64_t h, uint64_t v)
    {
        return fnv1a(&v, sizeof v, h);
    }
    inline uint64_t hashDouble(uint64_t h, double d)
    {
        uint64_t v;
        memcpy(&v, &d, sizeof v);
        return hashU64(h, v);
    }

    inline uint64_t mix(uint64_t a, uint64_t b)
    {
        uint64_t x = a ^ (b + 0x9E3779B97F4A7C15ULL + (a << 6) + (a >> 2));
        return splitmix64(x);
    }
    inline uint64_t mix(uint64_t a, const std::string &label)
    {
        return mix(a, fnv1a(label));
    }

    class Rng
    {
    public:
        explicit Rng(uint64_t seed = 1)
        {
            reseed(seed);
        }
        void reseed(uint64_t seed)
        {
            uint64_t x = seed;
            for (auto &v : s_)
                v = splitmix64(x);
        }
        Rng derive(const std::string &label) const
        {
            return Rng(mix(s_[0] ^ s_[2], label));
        }
        uint64_t next()
        {
            const uint64_t result = rotl(s_[1] * 5, 7) * 9;
            const uint64_t t = s_[1] << 17;
            s_[2] ^= s_[0];
            s_[3] ^= s_[1];
            s_[1] ^= s_[2];
            s_[0] ^= s_[3];
            s_[2] ^= t;
            s_[3] = rotl(s_[3], 45);
            return result;
        }
        // uniform integer in [0, n)
        uint64_t below(uint64_t n)
        {
            if (n <= 1)
                return 0;
            return next() % n;  // modulo bias is irrelevant here
        }
        long range(long lo, long hi)  // inclusive
        {
            if (hi <= lo)
                return lo;
            return lo + (long)below((uint64_t)(hi - lo) + 1);
        }
        double unit()  // [0,1)
        {
            return (double)(next() >> 11) * (1.0 / 9007199254740992.0);
        }
        double real(double lo, double hi)
        {
            return lo + (hi - lo) * unit();
        }
        bool chance(double p)
        {
            return unit() < p;
        }
        // log-uniform in [lo,hi], lo>0
        double logReal(double lo, double hi)
        {
            return std::exp(real(std::log(lo), std::log(hi)));
        }
        template <class T>
        const T &pick(const std::vector<T> &v)
        {
            return v[below(v.size())];
        }
        template <class T, size_t N>
        const T &pick(const T (&v)[N])
        {
            return v[below(N)];
        }

    private:
        static uint64_t rotl(uint64_t x, int k)
        {
            return (x << k) | (x >> (64 - k));
        }
        uint64_t s_[4];
    };
}  // namespace sim
