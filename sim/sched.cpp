// See sched.h.  This translation unit (like sched_handoff.c) is compiled WITHOUT sanitizers in every
// variant: the scheduler's own bookkeeping is ordered only by the futex hand-off, which must stay
// invisible to TSan so that TSan reports exactly the conflicting accesses the library itself does
// not order (DESIGN 2).
#ifndef _GNU_SOURCE
#define _GNU_SOURCE
#endif
#include "sim/sched.h"

#include <algorithm>
#include <cerrno>
#include <cstdio>
#include <cstdlib>
#include <cstring>
#include <dlfcn.h>
#include <pthread.h>
#include <sched.h>
#include <sys/syscall.h>
#include <time.h>
#include <unistd.h>

extern "C" void sim_handoff_park(int *go);
extern "C" void sim_handoff_release(int *go);

namespace sim
{
    namespace sched
    {
        std::function<void(const std::string &)> onDeadlock;
        std::function<void()> onBudget;

        namespace
        {
            const int MAXT = 256;
            struct Th
            {
                int id = 0;
                int go = 0;
                bool done = false;
                bool sleeping = false;
                long long wake = 0;
                int joinTarget = -1;
                pthread_mutex_t *blockedOn = nullptr;
                bool waitAll = false;  // thread 0 in stop(): runnable only when every other thread is done
                pthread_t pt{};
                bool hasPt = false;
                void *(*fn)(void *) = nullptr;
                void *arg = nullptr;
                std::function<void()> f;
                int prio = 0;
                long starveLeft = 0;
            };
            Th *ths[MAXT];
            int nth = 0;
            volatile bool g_active = false;
            int current = -1;
            Config cfg;
            Stats st;
            long long nowns = 0;
            long stallLeft = 0;
            uint64_t rngState = 1;
            long rrLeft = 0;
            std::vector<long> pctChange;  // yield counts at which the running thread's priority drops
            int pctNext = 0;
            __thread Th *tself = nullptr;

            uint64_t nextRand()
            {
                uint64_t z = (rngState += 0x9E3779B97F4A7C15ULL);
                z = (z ^ (z >> 30)) * 0xBF58476D1CE4E5B9ULL;
                z = (z ^ (z >> 27)) * 0x94D049BB133111EBULL;
                return z ^ (z >> 31);
            }

            typedef int (*MutexFn)(pthread_mutex_t *);
            MutexFn real_lock, real_unlock, real_trylock;
            int (*real_create)(pthread_t *, const pthread_attr_t *, void *(*)(void *), void *);
            int (*real_join)(pthread_t, void **);
            void initReal()
            {
                if (real_create)
                    return;
#ifdef SIM_NO_INTERPOSE
                real_trylock = &pthread_mutex_trylock;
                real_unlock = &pthread_mutex_unlock;
                real_lock = &pthread_mutex_lock;
                real_join = &pthread_join;
                real_create = &pthread_create;
#else
                real_trylock = (MutexFn)dlsym(RTLD_NEXT, "pthread_mutex_trylock");
                real_unlock = (MutexFn)dlsym(RTLD_NEXT, "pthread_mutex_unlock");
                real_lock = (MutexFn)dlsym(RTLD_NEXT, "pthread_mutex_lock");
                real_join = (decltype(real_join))dlsym(RTLD_NEXT, "pthread_join");
                real_create = (decltype(real_create))dlsym(RTLD_NEXT, "pthread_create");
#endif
            }

            bool runnable(Th *t)
            {
                if (t->done)
                    return false;
                if (t->sleeping)
                {
                    if (nowns >= t->wake)
                        t->sleeping = false;
                    else
                        return false;
                }
                if (t->joinTarget >= 0)
                {
                    if (ths[t->joinTarget]->done)
                        t->joinTarget = -1;
                    else
                        return false;
                }
                if (t->blockedOn != nullptr)
                    return false;
                if (t->waitAll)
                {
                    for (int i = 0; i < nth; i++)
                        if (ths[i] != t && !ths[i]->done)
                            return false;
                    t->waitAll = false;
                }
                return true;
            }

            void deadlock()
            {
                std::string d = "no runnable thread and nobody sleeping:";
                char b[96];
                for (int i = 0; i < nth; i++)
                    if (!ths[i]->done)
                    {
                        snprintf(b, sizeof b, " t%d(%s)", i,
                                 ths[i]->blockedOn ? "mutex" : (ths[i]->joinTarget >= 0 ? "join" : (ths[i]->waitAll ? "stop" : "?")));
                        d += b;
                    }
                g_active = false;
                if (onDeadlock)
                    onDeadlock(d);
                fprintf(stderr, "sim: DEADLOCK %s\n", d.c_str());
                _exit(3);
            }

            int choose(int *cand, int nc)
            {
                // bounded starvation fault
                if (nc > 1)
                {
                    int keep[MAXT], nk = 0;
                    for (int i = 0; i < nc; i++)
                    {
                        Th *t = ths[cand[i]];
                        if (t->starveLeft > 0)
                        {
                            t->starveLeft--;
                            st.starved++;
                        }
                        else
                            keep[nk++] = cand[i];
                    }
                    if (nk > 0)
                    {
                        memcpy(cand, keep, sizeof(int) * (size_t)nk);
                        nc = nk;
                    }
                }
                if (nc == 1)
                    return cand[0];
                switch (cfg.policy)
                {
                    case PCT:
                    {
                        if (pctNext < (int)pctChange.size() && st.yields >= pctChange[(size_t)pctNext] && current >= 0)
                        {
                            ths[current]->prio = -(++pctNext);  // lowest so far
                        }
                        int best = cand[0];
                        for (int i = 1; i < nc; i++)
                            if (ths[cand[i]]->prio > ths[best]->prio)
                                best = cand[i];
                        return best;
                    }
                    case ROUND_ROBIN:
                    {
                        bool curOk = false;
                        for (int i = 0; i < nc; i++)
                            if (cand[i] == current)
                                curOk = true;
                        if (curOk && rrLeft-- > 0)
                            return current;
                        rrLeft = 1 + (long)(nextRand() % (uint64_t)(2 * cfg.quantum + 1));
                        for (int i = 0; i < nc; i++)
                            if (cand[i] > current)
                                return cand[i];
                        return cand[0];
                    }
                    case RUN_TO_BLOCK:
                    {
                        for (int i = 0; i < nc; i++)
                            if (cand[i] == current)
                                return current;
                        return cand[nextRand() % (uint64_t)nc];
                    }
                    default:
                        return cand[nextRand() % (uint64_t)nc];
                }
            }

            // pick the next thread and hand the token over; called by the token holder
            void reschedule(bool selfParks)
            {
                for (;;)
                {
                    int cand[MAXT], nc = 0;
                    for (int i = 0; i < nth; i++)
                        if (runnable(ths[i]))
                            cand[nc++] = i;
                    if (nc == 0)
                    {
                        long long mw = -1;
                        for (int i = 0; i < nth; i++)
                            if (!ths[i]->done && ths[i]->sleeping && (mw < 0 || ths[i]->wake < mw))
                                mw = ths[i]->wake;
                        if (mw < 0)
                            deadlock();
                        nowns = mw;  // everybody blocked or asleep: jump to the earliest wake-up
                        st.clockJumps++;
                        continue;
                    }
                    int pick = choose(cand, nc);
                    st.scheduleHash = (st.scheduleHash ^ (uint64_t)(pick + 1)) * 1099511628211ULL;
                    if (pick == current)
                        return;
                    st.switches++;
                    int prev = current;
                    current = pick;
                    sim_handoff_release(&ths[pick]->go);
                    if (selfParks)
                        sim_handoff_park(&ths[prev]->go);
                    return;
                }
            }

            void tick()
            {
                st.yields++;
                if (stallLeft > 0)
                    stallLeft--;
                else
                {
                    nowns += cfg.costNs;
                    if (cfg.costJitterNs > 0)
                        nowns += (long long)(nextRand() % (uint64_t)(cfg.costJitterNs + 1));
                }
                if (st.yields > cfg.maxYields)
                {
                    g_active = false;
                    if (onBudget)
                        onBudget();
                    fprintf(stderr, "sim: step budget exhausted\n");
                    _exit(4);
                }
            }

            void *trampoline(void *p)
            {
                Th *t = (Th *)p;
                tself = t;
                sim_handoff_park(&t->go);
                void *r = nullptr;
                if (t->fn)
                    r = t->fn(t->arg);
                else
                    t->f();
                t->done = true;
                tself = nullptr;  // TLS destructors etc. that run after this point are not simulated
                if (g_active)
                    reschedule(false);
                return r;
            }

            Th *newThread()
            {
                if (nth >= MAXT)
                {
                    fprintf(stderr, "sim: too many threads\n");
                    _exit(5);
                }
                Th *t = new Th();
                t->id = nth;
                t->prio = (int)(nextRand() % 1000000) + 1;
                if (cfg.starveThread == t->id)
                    t->starveLeft = cfg.starveYields;
                ths[nth++] = t;
                st.threads = nth;
                return t;
            }
        }  // namespace

        bool active()
        {
            return g_active;
        }
        int self()
        {
            return tself ? tself->id : -1;
        }

        void start(const Config &c)
        {
            initReal();
            cfg = c;
            st = Stats();
            st.scheduleHash = 1469598103934665603ULL;
            rngState = c.seed * 0x9E3779B97F4A7C15ULL + 0x1234567;
            for (int i = 0; i < nth; i++)
                delete ths[i];
            nth = 0;
            nowns = c.epochNs;
            stallLeft = 0;
            rrLeft = c.quantum;
            pctChange.clear();
            pctNext = 0;
            if (c.policy == PCT)
            {
                for (int i = 0; i < c.pctDepth; i++)
                    pctChange.push_back((long)(nextRand() % (uint64_t)(c.pctHorizon > 0 ? c.pctHorizon : 1)));
                for (size_t i = 0; i < pctChange.size(); i++)
                    for (size_t j = i + 1; j < pctChange.size(); j++)
                        if (pctChange[j] < pctChange[i])
                            std::swap(pctChange[i], pctChange[j]);
            }
            Th *t = newThread();
            tself = t;
            current = 0;
            g_active = true;
        }

        Stats stop(bool abandon)
        {
            if (!g_active)
                return st;
            if (tself && tself->id == 0 && !abandon)
            {
                bool others = false;
                for (int i = 1; i < nth; i++)
                    if (!ths[i]->done)
                        others = true;
                if (others)
                {
                    tself->waitAll = true;
                    reschedule(true);
                }
            }
            g_active = false;
            st.simSeconds = (double)(nowns - cfg.epochNs) / 1e9;
            tself = nullptr;
            return st;
        }

        Stats stats()
        {
            Stats s = st;
            s.simSeconds = (double)(nowns - cfg.epochNs) / 1e9;
            return s;
        }

        void yield()
        {
            if (!g_active || !tself)
                return;
            tick();
            reschedule(true);
        }
        long long nowNs()
        {
            return nowns;
        }
        void advanceClock(long long ns)
        {
            nowns += ns;
        }
        void stallClock(long yields)
        {
            stallLeft = yields;
        }

        int spawn(std::function<void()> fn)
        {
            initReal();
            if (!g_active || !tself)
                return -1;
            Th *t = newThread();
            t->f = std::move(fn);
            int r = real_create(&t->pt, nullptr, trampoline, t);
            if (r != 0)
            {
                fprintf(stderr, "sim: pthread_create failed %d\n", r);
                _exit(5);
            }
            t->hasPt = true;
            yield();
            return t->id;
        }
        void join(int tid)
        {
            if (tid < 0 || tid >= nth)
                return;
            if (g_active && tself && !ths[tid]->done)
            {
                tself->joinTarget = tid;
                tick();
                reschedule(true);
            }
            if (ths[tid]->hasPt)
            {
                real_join(ths[tid]->pt, nullptr);
                ths[tid]->hasPt = false;
            }
        }

        // used by the interposers below
        namespace detail
        {
            int mutexLock(pthread_mutex_t *m)
            {
                initReal();
                if (!g_active || !tself)
                    return real_lock(m);
                tick();
                reschedule(true);
                for (;;)
                {
                    int r = real_trylock(m);
                    if (r != EBUSY)
                        return r;
                    tself->blockedOn = m;
                    st.mutexBlocks++;
                    reschedule(true);
                }
            }
            int mutexUnlock(pthread_mutex_t *m)
            {
                initReal();
                int r = real_unlock(m);
                if (g_active && tself)
                {
                    for (int i = 0; i < nth; i++)
                        if (ths[i]->blockedOn == m)
                            ths[i]->blockedOn = nullptr;
                    tick();
                    reschedule(true);
                }
                return r;
            }
            int create(pthread_t *pt, const pthread_attr_t *a, void *(*fn)(void *), void *arg)
            {
                initReal();
                if (!g_active || !tself)
                    return real_create(pt, a, fn, arg);
                Th *t = newThread();
                t->fn = fn;
                t->arg = arg;
                int r = real_create(pt, a, trampoline, t);
                if (r != 0)
                {
                    t->done = true;
                    return r;
                }
                t->pt = *pt;
                tick();
                reschedule(true);
                return r;
            }
            int joinPt(pthread_t pt, void **ret)
            {
                initReal();
                if (g_active && tself)
                    for (int i = 0; i < nth; i++)
                        if (ths[i]->fn && pthread_equal(ths[i]->pt, pt))
                        {
                            if (!ths[i]->done)
                            {
                                tself->joinTarget = i;
                                tick();
                                reschedule(true);
                            }
                            break;
                        }
                return real_join(pt, ret);
            }
            int sleepNs(long long ns)
            {
                if (!g_active || !tself)
                    return -1;
                st.sleeps++;
                tself->sleeping = true;
                tself->wake = nowns + (ns > 0 ? ns : 0);
                st.yields++;
                reschedule(true);
                return 0;
            }
            bool simulatedCaller()
            {
                return g_active && tself;
            }
        }  // namespace detail
    }  // namespace sched
}  // namespace sim

#ifndef SIM_NO_INTERPOSE
using namespace sim::sched::detail;
extern "C"
{
    int pthread_mutex_lock(pthread_mutex_t *m)
    {
        return mutexLock(m);
    }
    int pthread_mutex_unlock(pthread_mutex_t *m)
    {
        return mutexUnlock(m);
    }
    int pthread_create(pthread_t *pt, const pthread_attr_t *a, void *(*fn)(void *), void *arg)
    {
        return create(pt, a, fn, arg);
    }
    int pthread_join(pthread_t pt, void **ret)
    {
        return joinPt(pt, ret);
    }
    int nanosleep(const struct timespec *req, struct timespec *rem)
    {
        if (!simulatedCaller())
            return (int)syscall(SYS_nanosleep, req, rem);
        return sleepNs(req->tv_sec * 1000000000LL + req->tv_nsec);
    }
    int clock_nanosleep(clockid_t id, int flags, const struct timespec *req, struct timespec *rem)
    {
        if (!simulatedCaller())
            return (int)syscall(SYS_clock_nanosleep, id, flags, req, rem);
        long long ns = req->tv_sec * 1000000000LL + req->tv_nsec;
        if (flags & TIMER_ABSTIME)
            ns -= sim::sched::nowNs();
        sleepNs(ns);
        return 0;
    }
    int usleep(useconds_t us)
    {
        if (!simulatedCaller())
        {
            struct timespec ts = {(time_t)(us / 1000000), (long)(us % 1000000) * 1000};
            return (int)syscall(SYS_nanosleep, &ts, nullptr);
        }
        return sleepNs((long long)us * 1000);
    }
    int sched_yield(void)
    {
        if (!simulatedCaller())
            return (int)syscall(SYS_sched_yield);
        sim::sched::yield();
        return 0;
    }
    int clock_gettime(clockid_t id, struct timespec *ts)
    {
        if (!simulatedCaller())
            return (int)syscall(SYS_clock_gettime, id, ts);
        long long n = sim::sched::nowNs();
        ts->tv_sec = (time_t)(n / 1000000000LL);
        ts->tv_nsec = (long)(n % 1000000000LL);
        return 0;
    }
}
#endif
