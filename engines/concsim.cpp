// concsim (C19-A): 2-16 simulated caller threads execute generated operations on shared objects through
// the surface the API documents as thread safe.  The scheduler serialises the operations in a seeded
// order; because its futex hand-off is compiled outside TSan, TSan (this engine is built in the tsan
// variant) reports exactly those pairs of conflicting accesses that the LIBRARY ITSELF does not order -
// deterministically, same report for the same seed.  Functional results are compared with the sequential
// answers as well.  One forked child per case.
#include "sim/runner.h"
#include "sim/sched.h"
#include "engines/world.h"

#include <ompl/base/PlannerTerminationCondition.h>
#include <ompl/base/spaces/RealVectorStateSpace.h>
#include <ompl/control/SpaceInformation.h>
#include <ompl/control/spaces/RealVectorControlSpace.h>
#include <ompl/datastructures/NearestNeighborsGNAT.h>
#include <ompl/util/Console.h>
#include <ompl/util/RandomNumbers.h>

#include <atomic>
#include <set>

using sim::Json;
using sim::fmt;
namespace ob = ompl::base;
namespace og = ompl::geometric;
namespace oc = ompl::control;
namespace ss = sim::sched;

namespace
{
    struct Pt
    {
        int id;
        double x, y;
        bool operator==(const Pt &o) const
        {
            return id == o.id;
        }
        bool operator!=(const Pt &o) const
        {
            return id != o.id;
        }
    };
    double dist(const Pt &a, const Pt &b)
    {
        return std::fabs(a.x - b.x) + std::fabs(a.y - b.y);  // L1 on an integer lattice: exact
    }

    class RecordingHandler : public ompl::msg::OutputHandler
    {
    public:
        void log(const std::string &text, ompl::msg::LogLevel, const char *, int) override
        {
            // called under the library's own logging mutex; a plain container is the point: if the library did not
            // serialise its handler, TSan would flag this
            lines.push_back(text);
        }
        std::vector<std::string> lines;
    };

    Json genCase(sim::Rng &g, bool thorough)
    {
        Json plan = Json::object();
        plan["kind"] = "surface";
        static const char *surfaces[] = {"si", "si", "gnat", "gnat", "rng", "space", "pdef", "log", "ptc", "mixed", "csi"};
        plan["surface"] = g.pick(surfaces);
        int T = (int)g.pick(std::vector<double>{2, 2, 3, 4, 8, 16});
        plan["threads"] = T;
        plan["sched_seed"] = (long)g.range(1, 1000000000);
        plan["policy"] = (long)g.below(3);
        plan["ompl_seed"] = (long)g.range(1, 1000000000);
        plan["gnat_points"] = (long)g.range(5, 120);
        plan["gnat_removed"] = (long)g.range(0, 6);
        int nops = (int)g.range(2 * T, thorough ? 400 : 120);
        Json ops = Json::array();
        for (int i = 0; i < nops; i++)
        {
            Json op = Json::object();
            op["t"] = (long)g.below((uint64_t)T);
            op["a"] = (long)g.range(0, 1000000);
            op["b"] = (long)g.range(0, 1000000);
            op["k"] = (long)g.below(6);
            ops.push(op);
        }
        plan["ops"] = ops;
        // (drawn last) TSan build: a yield point in front of every atomic operation of library and harness code, so that
        // the scheduler can also switch threads between two atomic operations (sim/atomic_yield.cpp)
        plan["atomic_yields"] = g.chance(0.5);
        return plan;
    }
}  // namespace

extern "C" void sim_atomic_yield_enable(int) __attribute__((weak));
extern "C" long sim_atomic_yield_count() __attribute__((weak));

class ConcSim : public sim::Engine
{
public:
    std::string name() const override
    {
        return "concsim";
    }
    bool forkPerCase() const override
    {
        return true;
    }
    long defaultCases(const sim::Options &) const override
    {
        return 100000000;
    }
    int cpuLimit(const sim::Options &) const override
    {
        return 30;
    }
    void init(const sim::Options &) override
    {
        ompl::msg::noOutputHandler();
    }
    Json generate(const sim::Options &o, uint64_t caseSeed, long) override
    {
        sim::Rng g(caseSeed);
        return genCase(g, o.thorough());
    }
    std::string crashContext(const Json &plan) const override
    {
        return " surface=" + plan.gets("surface");
    }
    sim::CaseResult run(const sim::Options &o, const Json &plan) override;
    std::vector<Json> simplifications(const Json &plan) override
    {
        std::vector<Json> out;
        if (plan.geti("threads") > 2)
        {
            Json p = plan;
            p["threads"] = 2;
            out.push_back(p);
        }
        return out;
    }
    std::string rule(const sim::Options &) const override
    {
        return "case = one surface (shared SpaceInformation isValid/checkMotion both overloads; shared GNAT queries with a "
               "non-empty removal cache; RNG construction; StateSpace construction/destruction; ProblemDefinition "
               "add/get solutions; logging through a recording handler; PlannerTerminationCondition terminate vs eval; "
               "or a mix) x 2-16 simulated caller threads x a seeded serial order of 4-120 (quick) operations, in a TSan "
               "build whose scheduler hand-off is invisible to TSan. violation = any TSan report, or a functional "
               "mismatch (motion counters != calls, query != sequential answer, solutions lost, duplicate RNG seed, "
               "duplicate space name). non-trivial = at least two different threads touched the shared object; "
               "distinct = distinct (surface, #threads, policy, op mix) signatures";
    }
    std::vector<std::string> realComponents(const sim::Options &) const override
    {
        return {"SpaceInformation + DiscreteMotionValidator (shared)", "NearestNeighborsGNAT (shared, queries)",
                "ompl::RNG seed generator", "StateSpace registry (construction / destruction)",
                "ProblemDefinition solution set", "ompl::msg logging", "PlannerTerminationCondition terminate/eval",
                "libompl built with -fsanitize=thread (clang)"};
    }
    std::vector<std::string> stubComponents(const sim::Options &) const override
    {
        return {"thread scheduling (harness threads, serialised by the seeded scheduler; futex hand-off outside TSan)",
                "state validity checker (harness)", "log output handler (harness, recording)"};
    }
    std::vector<std::string> assumptions(const sim::Options &) const override
    {
        return {"operations are serialised, so a lost update cannot be executed here; the TSan happens-before report is "
                "the deciding evidence for races, the functional checks guard the repaired code",
                "TSan's shadow history is finite: op sequences are kept short (<= 400 ops) so that the first access of a "
                "racing pair is still in the history when the second happens"};
    }
};

sim::CaseResult ConcSim::run(const sim::Options &, const Json &plan)
{
    sim::CaseResult res;
    std::string surface = plan.gets("surface");
    int T = (int)plan.geti("threads", 2);
    ompl::RNG::setSeed((std::uint_fast32_t)plan.geti("ompl_seed", 1));

    // shared objects, built by the main thread before any other thread exists
    Json wd = Json::object();
    wd["space"] = "rv";
    wd["dim"] = 2;
    Json o1 = Json::object();
    o1["t"] = "ball";
    o1["c"] = Json::arrayOf(std::vector<double>{5.0, 5.0});
    o1["r"] = 2.0;
    wd["obstacles"] = Json::array();
    wd["obstacles"].push(o1);
    wd["resolution"] = 0.05;
    auto w = world::build(wd);
    auto pdef = std::make_shared<ob::ProblemDefinition>(w->si);
    // lattice states
    std::vector<ob::ScopedState<>> states;
    for (int i = 0; i < 36; i++)
    {
        states.emplace_back(w->ss);
        states.back()[0] = 0.5 + (i % 6) * 1.8;
        states.back()[1] = 0.5 + (i / 6) * 1.8;
    }
    // GNAT with a non-empty removal cache
    ompl::NearestNeighborsGNAT<Pt> gnat(4, 2, 6, 4, 8);
    gnat.setDistanceFunction([](const Pt &a, const Pt &b) { return dist(a, b); });
    std::vector<Pt> pts;
    {
        sim::Rng g((uint64_t)plan.geti("ompl_seed", 1));
        int n = (int)plan.geti("gnat_points", 30);
        for (int i = 0; i < n; i++)
        {
            Pt p{i, (double)g.range(0, 12), (double)g.range(0, 12)};
            pts.push_back(p);
            gnat.add(p);
        }
        int rm = (int)std::min<long>(plan.geti("gnat_removed"), n - 2);
        for (int i = 0; i < rm; i++)
        {
            size_t k = g.below(pts.size());
            if (gnat.remove(pts[k]))
                pts.erase(pts.begin() + (long)k);
        }
    }
    // shared control space information on the same space: const propagation through a harness propagator (x += u dt)
    auto cspace = std::make_shared<oc::RealVectorControlSpace>(w->ss, 2);
    {
        ob::RealVectorBounds cb(2);
        cb.setLow(-1);
        cb.setHigh(1);
        cspace->setBounds(cb);
    }
    auto csi = std::make_shared<oc::SpaceInformation>(w->ss, cspace);
    csi->setStateValidityChecker(std::make_shared<world::WorldValidity>(csi, w.get()));
    csi->setStatePropagator([](const ob::State *st, const oc::Control *u, double dt, ob::State *out) {
        const double *x = st->as<ob::RealVectorStateSpace::StateType>()->values;
        const double *c = u->as<oc::RealVectorControlSpace::ControlType>()->values;
        double nx = x[0] + c[0] * dt, ny = x[1] + c[1] * dt;
        out->as<ob::RealVectorStateSpace::StateType>()->values[0] = nx;
        out->as<ob::RealVectorStateSpace::StateType>()->values[1] = ny;
    });
    csi->setPropagationStepSize(0.25);
    csi->setMinMaxControlDuration(1, 20);
    csi->setup();
    std::vector<oc::Control *> controls;
    for (int i = 0; i < 8; i++)
    {
        controls.push_back(cspace->allocControl());
        controls.back()->as<oc::RealVectorControlSpace::ControlType>()->values[0] = std::cos(i * 0.785398);
        controls.back()->as<oc::RealVectorControlSpace::ControlType>()->values[1] = std::sin(i * 0.785398);
    }
    RecordingHandler handler;
    ompl::msg::setLogLevel(ompl::msg::LOG_INFO);
    if (surface == "log" || surface == "mixed")
        ompl::msg::useOutputHandler(&handler);
    ob::PlannerTerminationCondition ptc([] { return false; });

    struct PerThread
    {
        long motionCalls = 0, logCalls = 0, solAdds = 0;
        std::vector<unsigned> rngSeeds;
        std::vector<std::string> spaceNames;
        std::string error;
        uint64_t h = 1469598103934665603ULL;
        // scratch states allocated by the main thread before any other thread exists: copying the shared_ptr of the space
        // inside an op (ScopedState) is an acquire-release operation on its reference count, which would order the ops of
        // different threads and hide races from the happens-before analysis
        ob::State *tmpA = nullptr, *tmpB = nullptr;
    };
    std::vector<PerThread> per((size_t)T);
    for (auto &p : per)
    {
        p.tmpA = w->ss->allocState();
        p.tmpB = w->ss->allocState();
    }
    std::atomic<int> touched[16];
    for (auto &t : touched)
        t.store(0);
    std::atomic<bool> terminated{false};

    const auto &ops = plan["ops"].items();
    std::vector<std::shared_ptr<og::PathGeometric>> prePaths;
    for (size_t i = 0; i < ops.size(); i++)
        prePaths.push_back(std::make_shared<og::PathGeometric>(w->si));
    auto doOp = [&](const Json &op, int tid, size_t oi) {
        PerThread &me = per[(size_t)tid];
        std::string s = surface;
        long a = op.geti("a"), b = op.geti("b"), k = op.geti("k");
        if (s == "mixed")
        {
            static const char *all[] = {"si", "gnat", "rng", "space", "pdef", "log", "ptc"};
            s = all[a % 7];
        }
        if (s == "csi")
        {
            // const propagation on a shared control::SpaceInformation: same answers as the sequential computation
            const ob::State *s1 = states[(size_t)(a % 36)].get();
            if (!w->valid(s1))
                s1 = states[0].get();
            const oc::Control *u = controls[(size_t)(b % 8)];
            const double *cu = u->as<oc::RealVectorControlSpace::ControlType>()->values;
            int steps = 1 + (int)(k % 6) * 3;
            double x = s1->as<ob::RealVectorStateSpace::StateType>()->values[0], y = s1->as<ob::RealVectorStateSpace::StateType>()->values[1];
            int expect = 0;
            auto *tv = me.tmpA->as<ob::RealVectorStateSpace::StateType>()->values;
            for (int i = 0; i < steps; i++)
            {
                double nx = x + cu[0] * 0.25, ny = y + cu[1] * 0.25;
                tv[0] = nx;
                tv[1] = ny;
                if (!w->valid(me.tmpA))
                    break;
                x = nx;
                y = ny;
                expect++;
            }
            auto *out = me.tmpB->as<ob::RealVectorStateSpace::StateType>()->values;
            unsigned got;
            if (k % 2 == 0)
                got = csi->propagateWhileValid(s1, u, steps, me.tmpB);
            else
            {
                std::vector<ob::State *> v;
                got = csi->propagateWhileValid(s1, u, steps, v, true);
                if (!v.empty())
                    w->ss->copyState(me.tmpB, v.back());
                else
                    w->ss->copyState(me.tmpB, s1);
                for (auto *p : v)
                    w->ss->freeState(p);
            }
            if ((int)got != expect || std::fabs(out[0] - x) > 1e-12 || std::fabs(out[1] - y) > 1e-12)
                me.error = fmt("propagateWhileValid on a shared control::SpaceInformation: %u steps ending at (%.6g, %.6g), sequential answer %d steps ending at (%.6g, %.6g)",
                               got, out[0], out[1], expect, x, y);
            me.h = sim::hashU64(me.h, (uint64_t)got);
        }
        else if (s == "si")
        {
            const ob::State *s1 = states[(size_t)(a % 36)].get(), *s2 = states[(size_t)(b % 36)].get();
            if (k < 2)
            {
                bool v = w->si->isValid(s1);
                if (v != w->valid(s1))
                    me.error = "isValid differs from the sequential answer";
            }
            else if (k < 4)
            {
                bool v = w->si->checkMotion(s1, s2);
                me.motionCalls++;
                me.h = sim::hashU64(me.h, (uint64_t)v);
            }
            else
            {
                std::pair<ob::State *, double> last(me.tmpA, 0.0);
                bool v = w->si->checkMotion(s1, s2, last);
                bool v2 = w->si->checkMotion(s1, s2);
                me.motionCalls += 2;
                if (v != v2)
                    me.error = "the two checkMotion overloads disagree";
            }
        }
        else if (s == "gnat")
        {
            Pt q{-1, (double)(a % 13), (double)(b % 13)};
            std::vector<double> all;
            for (auto &p : pts)
                all.push_back(dist(q, p));
            std::sort(all.begin(), all.end());
            std::vector<Pt> got;
            if (k < 2)
            {
                Pt n = gnat.nearest(q);
                if (dist(q, n) != all[0])
                    me.error = "GNAT nearest differs from brute force";
            }
            else if (k < 4)
            {
                size_t kk = 1 + (size_t)(a % 7);
                gnat.nearestK(q, kk, got);
                for (size_t i = 0; i < got.size(); i++)
                    if (i >= all.size() || dist(q, got[i]) != all[i])
                        me.error = "GNAT nearestK differs from brute force";
                if (got.size() != std::min(kk, all.size()))
                    me.error = "GNAT nearestK size differs from brute force";
            }
            else if (k < 5)
            {
                double r = (double)(b % 6);
                gnat.nearestR(q, r, got);
                size_t expect = 0;
                for (double d : all)
                    if (d <= r)
                        expect++;
                if (got.size() != expect)
                    me.error = "GNAT nearestR size differs from brute force";
            }
            else
            {
                std::vector<Pt> l;
                gnat.list(l);
                if (l.size() != pts.size() || gnat.size() != pts.size())
                    me.error = "GNAT list/size differs from the model";
            }
        }
        else if (s == "rng")
        {
            ompl::RNG r;
            me.rngSeeds.push_back((unsigned)r.getLocalSeed());
            me.h = sim::hashDouble(me.h, r.uniform01());
        }
        else if (s == "space")
        {
            auto sp = std::make_shared<ob::RealVectorStateSpace>(1 + (unsigned)(a % 3));
            me.spaceNames.push_back(sp->getName());
            if (k < 3)
                sp->setName(fmt("renamed-%d-%ld", tid, a));
        }
        else if (s == "pdef")
        {
            if (k < 3)
            {
                // (the path object was made by the main thread: making it here would copy the shared_ptr of the space
                // information, an acquire-release operation that orders the ops of different threads)
                auto &path = prePaths[oi];
                path->append(states[(size_t)(a % 36)].get());
                path->append(states[(size_t)(b % 36)].get());
                pdef->addSolutionPath(path, k == 0, k == 0 ? (double)(a % 10) : 0.0, fmt("t%d", tid));
                me.solAdds++;
            }
            else if (k < 4)
            {
                auto sols = pdef->getSolutions();
                for (size_t i = 0; i + 1 < sols.size(); i++)
                    if (sols[i + 1] < sols[i])
                        me.error = "getSolutions() snapshot not sorted";
            }
            else if (k < 5)
                me.h = sim::hashU64(me.h, (uint64_t)pdef->hasExactSolution());
            else
            {
                ob::PathPtr p = pdef->getSolutionPath();
                me.h = sim::hashU64(me.h, p ? 1 : 0);
            }
        }
        else if (s == "log")
        {
            // logging, and (re)configuring the logger from another thread while others log: all documented to go
            // through the logger's own lock
            if (k == 0)
                ompl::msg::useOutputHandler(&handler);  // the same handler again: no observable change
            else if (k == 1)
                ompl::msg::setLogLevel(ompl::msg::LOG_INFO);
            else
            {
                OMPL_INFORM("thread %d op %ld", tid, a);
                me.logCalls++;
            }
        }
        else if (s == "ptc")
        {
            if (k == 0 && tid != 0)
            {
                ptc.terminate();
                terminated.store(true, std::memory_order_relaxed);
            }
            else
            {
                bool was = terminated.load(std::memory_order_relaxed);
                bool v = ptc();
                if (was && !v)
                    me.error = "eval() false after terminate() from another thread had returned";
            }
        }
        touched[tid % 16].store(1, std::memory_order_relaxed);
    };

    ss::Config cfg;
    cfg.seed = (uint64_t)plan.geti("sched_seed", 1);
    cfg.policy = (int)plan.geti("policy", 0);
    cfg.costNs = 1000;
    ss::onDeadlock = [&](const std::string &what) {
        res.violate("C19.deadlock surface=" + surface, what);
        sim::finishCaseNow(res);
    };
    ss::start(cfg);
    const bool atomicYields = plan.getb("atomic_yields") && sim_atomic_yield_enable != nullptr;
    long ay0 = sim_atomic_yield_count ? sim_atomic_yield_count() : 0;
    if (atomicYields)
        sim_atomic_yield_enable(1);
    std::vector<int> tids;
    for (int t = 1; t < T; t++)
        tids.push_back(ss::spawn([&, t] {
            for (size_t oi = 0; oi < ops.size(); oi++)
                if ((int)(ops[oi].geti("t") % T) == t)
                {
                    ss::yield();
                    doOp(ops[oi], t, oi);
                }
        }));
    for (size_t oi = 0; oi < ops.size(); oi++)
        if ((int)(ops[oi].geti("t") % T) == 0)
        {
            ss::yield();
            doOp(ops[oi], 0, oi);
        }
    for (int t : tids)
        ss::join(t);
    if (atomicYields)
    {
        sim_atomic_yield_enable(0);
        res.faults["F4-yield-before-atomic-operation"] += sim_atomic_yield_count() - ay0;
    }
    ss::Stats st = ss::stop();

    // functional checks against the sequential answers
    long motionCalls = 0, logCalls = 0, solAdds = 0;
    int threadsTouched = 0;
    std::multiset<unsigned> seeds;
    std::multiset<std::string> names;
    uint64_t h = st.scheduleHash;
    for (int t = 0; t < T; t++)
    {
        PerThread &p = per[(size_t)t];
        motionCalls += p.motionCalls;
        logCalls += p.logCalls;
        solAdds += p.solAdds;
        for (auto s : p.rngSeeds)
            seeds.insert(s);
        for (auto &n : p.spaceNames)
            names.insert(n);
        if (!p.error.empty())
            res.violate("C19.result-differs-from-sequential surface=" + surface, fmt("thread %d: ", t) + p.error);
        h = sim::hashU64(h, p.h);
    }
    for (int t = 0; t < 16; t++)
        threadsTouched += touched[t].load();
    if ((long)w->si->getMotionValidator()->getCheckedMotionCount() != motionCalls)
        res.violate("C19.motion-counters-differ-from-calls surface=" + surface,
                    fmt("getCheckedMotionCount() = %u after %ld checkMotion calls", w->si->getMotionValidator()->getCheckedMotionCount(), motionCalls));
    if ((long)pdef->getSolutionCount() != solAdds)
        res.violate("C19.solutions-lost surface=" + surface, fmt("%zu solutions held after %ld adds", pdef->getSolutionCount(), solAdds));
    for (auto it = seeds.begin(); it != seeds.end(); ++it)
        if (seeds.count(*it) > 1)
        {
            res.violate("C19.duplicate-rng-seed surface=" + surface, fmt("two RNG instances got the seed %u", *it));
            break;
        }
    for (auto it = names.begin(); it != names.end(); ++it)
        if (names.count(*it) > 1)
        {
            res.violate("C19.duplicate-space-name surface=" + surface, "two state spaces got the default name " + *it);
            break;
        }
    if ((surface == "log") && (long)handler.lines.size() != logCalls)
        res.violate("C19.log-lines-lost surface=" + surface, fmt("%zu lines recorded for %ld log calls", handler.lines.size(), logCalls));
    ompl::msg::noOutputHandler();
    for (auto *u : controls)
        cspace->freeControl(u);
    for (auto &p : per)
    {
        w->ss->freeState(p.tmpA);
        w->ss->freeState(p.tmpB);
    }
    res.trace = h;
    res.interleavings.push_back(st.scheduleHash);
    res.simSeconds = st.simSeconds;
    res.nontrivial = threadsTouched >= 2;
    res.sig = surface + fmt("/T%d/p%d/ops%zu", T, cfg.policy, ops.size() / 20);
    res.faults["F4-scheduler-switches"] += st.switches;
    res.probes["threads-that-touched-the-shared-object"] += threadsTouched;
    res.probes["checkMotion-calls"] += motionCalls;
    res.probes["solutions-added-concurrently"] += solAdds;
    Json info = Json::object();
    info["threads"] = T;
    info["switches"] = Json(st.switches);
    info["motion_calls"] = Json(motionCalls);
    res.info = info;
    return res;
}

int main(int argc, char **argv)
{
    ConcSim e;
    return sim::engineMain(e, argc, argv);
}
