// Worlds: the user side of the system under simulation (DESIGN 3.7) - state spaces (through the
// Counting<> ledger mix-in), exact closed-form validity predicates, queries, and the shared
// path / cost oracles (DESIGN 3.8).  Everything is built from a JSON world description so that a
// replay file pins it completely.
#pragma once
#include "sim/json.h"
#include "sim/prng.h"

#include <ompl/base/SpaceInformation.h>
#include <ompl/base/ProblemDefinition.h>
#include <ompl/base/ScopedState.h>
#include <ompl/base/ProjectionEvaluator.h>
#include <ompl/base/goals/GoalRegion.h>
#include <ompl/base/goals/GoalState.h>
#include <ompl/base/goals/GoalStates.h>
#include <ompl/base/goals/GoalLazySamples.h>
#include <ompl/base/spaces/RealVectorStateSpace.h>
#include <ompl/base/spaces/SE2StateSpace.h>
#include <ompl/base/spaces/SE3StateSpace.h>
#include <ompl/base/spaces/SO2StateSpace.h>
#include <ompl/base/spaces/SO3StateSpace.h>
#include <ompl/base/spaces/TimeStateSpace.h>
#include <ompl/base/spaces/DiscreteStateSpace.h>
#include <ompl/base/spaces/ReedsSheppStateSpace.h>
#include <ompl/base/spaces/DubinsStateSpace.h>
#include <ompl/base/OptimizationObjective.h>
#include <ompl/geometric/PathGeometric.h>

#include <atomic>
#include <functional>
#include <sys/resource.h>
#include <cmath>
#include <memory>
#include <unordered_set>

namespace world
{
    namespace ob = ompl::base;
    namespace og = ompl::geometric;
    using sim::Json;

    // thrown by the validity checker when the case's simulator step budget is used up (inconclusive, never a verdict)
    struct BudgetExhausted : std::exception
    {
        const char *what() const noexcept override
        {
            return "simulator step budget (validity calls) exhausted";
        }
    };

    inline double cpuSeconds()
    {
        struct rusage ru;
        getrusage(RUSAGE_SELF, &ru);
        return ru.ru_utime.tv_sec + ru.ru_stime.tv_sec + (ru.ru_utime.tv_usec + ru.ru_stime.tv_usec) * 1e-6;
    }

    // ---- state ledger ----------------------------------------------------------------------------------
    struct Ledger
    {
        std::unordered_set<const ob::State *> live;
        long allocs = 0, frees = 0, badFrees = 0;
        // step budget while a solve is running: top-level distance() calls are counted, CPU time is polled
        bool armed = false;
        long distCalls = 0;
        double cpuBudget = 1e9;
        std::function<void()> onBudgetExhausted;
        // scheduled (threaded) cases: a simulator yield point on every n-th distance computation, so that a thread can be
        // preempted in the middle of a nearest-neighbour query (0: none)
        long distYieldEvery = 0, distSeen = 0;
        void (*onDistanceYield)() = nullptr;
        std::atomic_flag lock = ATOMIC_FLAG_INIT;
        void onAlloc(const ob::State *s)
        {
            while (lock.test_and_set(std::memory_order_acquire))
            {
            }
            live.insert(s);
            allocs++;
            lock.clear(std::memory_order_release);
        }
        // returns false if s was not live (double free / foreign state)
        bool onFree(const ob::State *s)
        {
            while (lock.test_and_set(std::memory_order_acquire))
            {
            }
            bool ok = live.erase(s) == 1;
            frees++;
            if (!ok)
                badFrees++;
            lock.clear(std::memory_order_release);
            return ok;
        }
    };
    inline Ledger &ledger()
    {
        static Ledger *l = new Ledger();  // never destroyed: read by the exit report
        return *l;
    }

#if defined(__has_feature)
#if __has_feature(thread_sanitizer)
#define WORLD_NO_LEDGER 1
#endif
#endif
#if defined(__SANITIZE_THREAD__)
#define WORLD_NO_LEDGER 1
#endif

    template <class Base>
    class Counting : public Base
    {
    public:
        using Base::Base;
#ifndef WORLD_NO_LEDGER
        // (not in the TSan build: the ledger's lock would order every allocState/freeState of different threads and
        // hide races between them from the happens-before analysis; nothing there judges the ledger)
        ob::State *allocState() const override
        {
            ob::State *s = Base::allocState();
            ledger().onAlloc(s);
            return s;
        }
#endif
        void freeState(ob::State *s) const override
        {
#ifdef WORLD_NO_LEDGER
            Base::freeState(s);
            return;
#endif
            if (!ledger().onFree(s))
                return;  // do not hand a non-live state to the real deallocator: the ledger reports it
            Base::freeState(s);
        }
        double distance(const ob::State *a, const ob::State *b) const override
        {
            Ledger &l = ledger();
            if (l.distYieldEvery > 0 && l.onDistanceYield && ++l.distSeen % l.distYieldEvery == 0)
                l.onDistanceYield();
            if (l.armed && (++l.distCalls & 0x3fff) == 0 && cpuSeconds() > l.cpuBudget)
            {
                if (l.onBudgetExhausted)
                    l.onBudgetExhausted();
                throw BudgetExhausted();
            }
            return Base::distance(a, b);
        }
    };

    // ---- obstacles -------------------------------------------------------------------------------------
    struct Obst
    {
        int type = 0;  // 0 box (closed), 1 ball (closed)
        double lo[3] = {0, 0, 0}, hi[3] = {0, 0, 0}, c[3] = {0, 0, 0}, r = 0;
    };

    class World;
    using WorldPtr = std::shared_ptr<World>;

    class World
    {
    public:
        Json desc;
        std::string space;  // rv | se2 | se3 | cmp (weighted compound R^2 x SO(2) x R^1) | rs (Reeds-Shepp) | dubins
        enum Kind
        {
            RV,
            SE2,
            SE3,
            CMP
        } kind = RV;  // layout class of `space` (rs / dubins share SE2's)
        bool curved = false;    // rs / dubins
        long validBudget = -1;  // simulator step budget: validity calls allowed per case (<0: unlimited)
        double cpuBudget = 1e9;  // CPU seconds of the case after which a running solve is abandoned (inconclusive)
        std::function<void()> onBudgetExhausted;  // if set, called instead of throwing (threaded engines: an exception
                                                  // must not escape a planner's worker thread)
        int dim = 2;        // total real dimension for rv
        int pdim = 2;       // positional dimensions the obstacles live in
        double lo = 0, hi = 10;
        double requestedFraction = 0.01;  // the resolution the application asked for (the oracle's, not read back from the spaces)
        std::vector<Obst> obst;
        ob::StateSpacePtr ss;
        ob::SpaceInformationPtr si;
        mutable std::atomic<long> validCalls{0};
        std::function<void()> onValidityCall;  // simulator yield point (set by threaded engines)

        void pos(const ob::State *s, double *p) const
        {
            if (kind == RV)
            {
                const auto *r = s->as<ob::RealVectorStateSpace::StateType>();
                for (int i = 0; i < pdim; i++)
                    p[i] = r->values[i];
            }
            else if (kind == SE2)
            {
                const auto *r = s->as<ob::SE2StateSpace::StateType>();
                p[0] = r->getX();
                p[1] = r->getY();
            }
            else if (kind == SE3)
            {
                const auto *r = s->as<ob::SE3StateSpace::StateType>();
                p[0] = r->getX();
                p[1] = r->getY();
                p[2] = r->getZ();
            }
            else  // cmp: component 0 is R^2
            {
                const auto *c = s->as<ob::CompoundState>();
                const auto *r = c->as<ob::RealVectorStateSpace::StateType>(0);
                p[0] = r->values[0];
                p[1] = r->values[1];
            }
        }
        bool validPos(const double *p) const
        {
            for (const auto &o : obst)
            {
                if (o.type == 0)
                {
                    bool in = true;
                    for (int i = 0; i < pdim && in; i++)
                        in = p[i] >= o.lo[i] && p[i] <= o.hi[i];
                    if (in)
                        return false;
                }
                else
                {
                    double d = 0;
                    for (int i = 0; i < pdim; i++)
                        d += (p[i] - o.c[i]) * (p[i] - o.c[i]);
                    if (d <= o.r * o.r)
                        return false;
                }
            }
            return true;
        }
        // the world's own exact predicate (the oracle's authority)
        bool valid(const ob::State *s) const
        {
            double p[3];
            pos(s, p);
            // curved spaces (Reeds-Shepp, Dubins): motions between in-bounds states can leave the bounds, so - as the
            // library's documentation asks of users - the validity predicate includes the bounds there
            if (curved)
                for (int i = 0; i < 2; i++)
                    if (p[i] < lo || p[i] > hi)
                        return false;
            return validPos(p);
        }
        // distance from p to the nearest obstacle boundary (clearance), for clearance objectives / samplers
        double clearancePos(const double *p) const
        {
            double best = 1e9;
            for (const auto &o : obst)
            {
                double d;
                if (o.type == 0)
                {
                    double s2 = 0;
                    bool inside = true;
                    double minIn = 1e9;
                    for (int i = 0; i < pdim; i++)
                    {
                        double e = std::max(std::max(o.lo[i] - p[i], p[i] - o.hi[i]), 0.0);
                        s2 += e * e;
                        if (e > 0)
                            inside = false;
                        minIn = std::min(minIn, std::min(p[i] - o.lo[i], o.hi[i] - p[i]));
                    }
                    d = inside ? -minIn : std::sqrt(s2);
                }
                else
                {
                    double s2 = 0;
                    for (int i = 0; i < pdim; i++)
                        s2 += (p[i] - o.c[i]) * (p[i] - o.c[i]);
                    d = std::sqrt(s2) - o.r;
                }
                best = std::min(best, d);
            }
            return best;
        }

        ob::ScopedState<> stateFrom(const Json &reals) const
        {
            ob::ScopedState<> s(ss);
            std::vector<double> v;
            for (auto &x : reals.items())
                v.push_back(x.d());
            ss->copyFromReals(s.get(), v);
            return s;
        }
        Json stateJson(const ob::State *s) const
        {
            std::vector<double> v;
            ss->copyToReals(v, s);
            return Json::arrayOf(v);
        }
        uint64_t hashState(uint64_t h, const ob::State *s) const
        {
            std::vector<double> v;
            ss->copyToReals(v, s);
            for (double d : v)
                h = sim::hashDouble(h, d);
            return h;
        }
    };

    class WorldValidity : public ob::StateValidityChecker
    {
    public:
        WorldValidity(const ob::SpaceInformationPtr &si, const World *w) : ob::StateValidityChecker(si), w_(w)
        {
            specs_.clearanceComputationType = ob::StateValidityCheckerSpecs::EXACT;
        }
        bool isValid(const ob::State *s) const override
        {
            long n = w_->validCalls.fetch_add(1, std::memory_order_relaxed) + 1;  // relaxed: must not order the callers' other accesses (TSan)
            if (w_->validBudget >= 0 && (n > w_->validBudget || ((n & 0xffff) == 0 && cpuSeconds() > w_->cpuBudget)))
            {
                if (w_->onBudgetExhausted)
                    w_->onBudgetExhausted();
                throw BudgetExhausted();
            }
            if (w_->onValidityCall)
                w_->onValidityCall();
            return w_->valid(s);
        }
        double clearance(const ob::State *s) const override
        {
            double p[3];
            w_->pos(s, p);
            return w_->clearancePos(p);
        }

    private:
        const World *w_;
    };

    // projection onto the positional part, registered as default for spaces that have none
    class PosProjection : public ob::ProjectionEvaluator
    {
    public:
        PosProjection(const ob::StateSpacePtr &ss, const World *w) : ob::ProjectionEvaluator(ss), w_(w)
        {
        }
        unsigned int getDimension() const override
        {
            return (unsigned)w_->pdim;
        }
        void defaultCellSizes() override
        {
            cellSizes_.assign((size_t)w_->pdim, (w_->hi - w_->lo) / 20.0);
        }
        void project(const ob::State *s, Eigen::Ref<Eigen::VectorXd> proj) const override
        {
            double p[3];
            w_->pos(s, p);
            for (int i = 0; i < w_->pdim; i++)
                proj[i] = p[i];
        }

    private:
        const World *w_;
    };

    // non-sampleable goal region around a positional point
    class PosGoalRegion : public ob::GoalRegion
    {
    public:
        PosGoalRegion(const ob::SpaceInformationPtr &si, const World *w, const double *c, double thr)
          : ob::GoalRegion(si), w_(w)
        {
            for (int i = 0; i < 3; i++)
                c_[i] = i < w->pdim ? c[i] : 0;
            setThreshold(thr);
        }
        double distanceGoal(const ob::State *s) const override
        {
            double p[3] = {0, 0, 0};
            w_->pos(s, p);
            double d = 0;
            for (int i = 0; i < w_->pdim; i++)
                d += (p[i] - c_[i]) * (p[i] - c_[i]);
            return std::sqrt(d);
        }

    private:
        const World *w_;
        double c_[3];
    };

    inline WorldPtr build(const Json &d)
    {
        auto w = std::make_shared<World>();
        w->desc = d;
        w->space = d.gets("space", "rv");
        w->curved = w->space == "rs" || w->space == "dubins";
        w->kind = w->space == "rv" ? World::RV : (w->space == "se3" ? World::SE3 : (w->space == "cmp" ? World::CMP : World::SE2));
        w->dim = (int)d.geti("dim", 2);
        w->lo = d.getd("lo", 0);
        w->hi = d.getd("hi", 10);
        ob::RealVectorBounds b2(2), b3(3);
        b2.setLow(w->lo);
        b2.setHigh(w->hi);
        b3.setLow(w->lo);
        b3.setHigh(w->hi);
        if (w->space == "rv")
        {
            auto s = std::make_shared<Counting<ob::RealVectorStateSpace>>((unsigned)w->dim);
            s->setBounds(w->lo, w->hi);
            w->ss = s;
            w->pdim = std::min(w->dim, (int)d.geti("pdim", 2));
        }
        else if (w->space == "se2")
        {
            auto s = std::make_shared<Counting<ob::SE2StateSpace>>();
            s->setBounds(b2);
            w->ss = s;
            w->pdim = 2;
        }
        else if (w->space == "rs")
        {
            auto s = std::make_shared<Counting<ob::ReedsSheppStateSpace>>(d.getd("turning_radius", 1.0));
            s->setBounds(b2);
            w->ss = s;
            w->pdim = 2;
        }
        else if (w->space == "dubins")
        {
            auto s = std::make_shared<Counting<ob::DubinsStateSpace>>(d.getd("turning_radius", 1.0), false);
            s->setBounds(b2);
            w->ss = s;
            w->pdim = 2;
        }
        else if (w->space == "se3")
        {
            auto s = std::make_shared<Counting<ob::SE3StateSpace>>();
            s->setBounds(b3);
            w->ss = s;
            w->pdim = 3;
        }
        else  // cmp: weighted R^2 x SO(2) x R^1
        {
            auto s = std::make_shared<Counting<ob::CompoundStateSpace>>();
            auto r2 = std::make_shared<ob::RealVectorStateSpace>(2);
            r2->setBounds(w->lo, w->hi);
            auto r1 = std::make_shared<ob::RealVectorStateSpace>(1);
            r1->setBounds(-1, 1);
            s->addSubspace(r2, d.getd("w0", 1.0));
            s->addSubspace(std::make_shared<ob::SO2StateSpace>(), d.getd("w1", 0.5));
            s->addSubspace(r1, d.getd("w2", 2.0));
            s->lock();
            w->ss = s;
            w->pdim = 2;
        }
        for (auto &oj : d["obstacles"].items())
        {
            Obst o;
            o.type = oj.gets("t") == "ball" ? 1 : 0;
            for (int i = 0; i < 3; i++)
            {
                if (o.type == 0)
                {
                    o.lo[i] = i < (int)oj["lo"].size() ? oj["lo"].at((size_t)i).d() : -1e18;
                    o.hi[i] = i < (int)oj["hi"].size() ? oj["hi"].at((size_t)i).d() : 1e18;
                }
                else
                    o.c[i] = i < (int)oj["c"].size() ? oj["c"].at((size_t)i).d() : 0;
            }
            o.r = oj.getd("r");
            w->obst.push_back(o);
        }
        w->si = std::make_shared<ob::SpaceInformation>(w->ss);
        w->si->setStateValidityChecker(std::make_shared<WorldValidity>(w->si, w.get()));
        // "late_resolution": the application refines the resolution AFTER the space information was set up (with the
        // library's default) and leaves the renewed setup to the planner, as Planner::setup() documents
        const bool late = d.getb("late_resolution");
        if (w->space == "cmp" || (w->space == "rv" && w->dim > 3))
            w->ss->registerDefaultProjection(std::make_shared<PosProjection>(w->ss, w.get()));
        if (late)
            w->si->setup();
        w->si->setStateValidityCheckingResolution(d.getd("resolution", 0.01));
        w->requestedFraction = d.getd("resolution", 0.01);
        if (d.has("count_factor"))
            w->ss->setValidSegmentCountFactor((unsigned)d.geti("count_factor", 1));
        if (!late)
            w->si->setup();
        return w;
    }

    // ---- queries ---------------------------------------------------------------------------------------
    struct Query
    {
        ob::ProblemDefinitionPtr pdef;
        std::vector<ob::ScopedState<>> starts;      // as given (may include invalid / out-of-bounds ones)
        std::vector<ob::ScopedState<>> goalStates;  // for state / states goals
        std::string goalType;
        std::shared_ptr<ob::GoalLazySamples> lazyGoal;  // "lazy": producer thread, started/stopped by the engine
        bool anyValidStart = false;
        bool anyValidGoal = true;
    };

    inline std::shared_ptr<Query> makeQuery(const WorldPtr &w, const Json &q)
    {
        auto Q = std::make_shared<Query>();
        Q->pdef = std::make_shared<ob::ProblemDefinition>(w->si);
        for (auto &s : q["starts"].items())
        {
            Q->starts.push_back(w->stateFrom(s));
            Q->pdef->addStartState(Q->starts.back());
            if (w->si->satisfiesBounds(Q->starts.back().get()) && w->valid(Q->starts.back().get()))
                Q->anyValidStart = true;
        }
        const Json &g = q["goal"];
        Q->goalType = g.gets("type", "state");
        double thr = g.getd("threshold", 0.1);
        if (Q->goalType == "state")
        {
            Q->goalStates.push_back(w->stateFrom(g["states"].at(0)));
            Q->pdef->setGoalState(Q->goalStates.back(), thr);
            Q->anyValidGoal =
                w->si->satisfiesBounds(Q->goalStates.back().get()) && w->valid(Q->goalStates.back().get());
        }
        else if (Q->goalType == "states")
        {
            auto gs = std::make_shared<ob::GoalStates>(w->si);
            Q->anyValidGoal = false;
            for (auto &s : g["states"].items())
            {
                Q->goalStates.push_back(w->stateFrom(s));
                gs->addState(Q->goalStates.back());
                if (w->si->satisfiesBounds(Q->goalStates.back().get()) && w->valid(Q->goalStates.back().get()))
                    Q->anyValidGoal = true;
            }
            gs->setThreshold(thr);
            Q->pdef->setGoal(gs);
        }
        else if (Q->goalType == "lazy")
        {
            // goal states produced one by one by the library's sampling thread, each after a (simulated) delay
            Q->anyValidGoal = false;
            for (auto &s : g["states"].items())
            {
                Q->goalStates.push_back(w->stateFrom(s));
                if (w->si->satisfiesBounds(Q->goalStates.back().get()) && w->valid(Q->goalStates.back().get()))
                    Q->anyValidGoal = true;
            }
            long long delayNs = (long long)(g.getd("delay_ms") * 1e6);
            auto next = std::make_shared<std::atomic<size_t>>(0);
            Query *qp = Q.get();
            World *wp = w.get();
            auto fn = [qp, wp, delayNs, next](const ob::GoalLazySamples *, ob::State *st) {
                size_t i = (*next)++;
                if (i >= qp->goalStates.size())
                    return false;
                if (delayNs > 0)
                {
                    struct timespec ts = {(time_t)(delayNs / 1000000000LL), (long)(delayNs % 1000000000LL)};
                    nanosleep(&ts, nullptr);
                }
                wp->ss->copyState(st, qp->goalStates[i].get());
                return true;
            };
            Q->lazyGoal = std::make_shared<ob::GoalLazySamples>(w->si, fn, false);
            Q->lazyGoal->setThreshold(thr);
            Q->pdef->setGoal(Q->lazyGoal);
        }
        else  // region
        {
            double c[3] = {0, 0, 0};
            for (int i = 0; i < 3 && i < (int)g["center"].size(); i++)
                c[i] = g["center"].at((size_t)i).d();
            Q->pdef->setGoal(std::make_shared<PosGoalRegion>(w->si, w.get(), c, thr));
        }
        return Q;
    }

    // ---- oracles ---------------------------------------------------------------------------------------
    // own segment count from the documented rule (count factor x ceil(distance / (fraction x extent)), maximum over
    // the components of a compound); deliberately not a call to validSegmentCount()
    // (the fraction is the one the application requested through SpaceInformation::setStateValidityCheckingResolution,
    // which every component of a compound must have received: it is not read back from the spaces)
    inline unsigned ownSegmentCount(const ob::StateSpace *sp, const ob::State *a, const ob::State *b, double frac)
    {
        // (Reeds-Shepp / Dubins override validSegmentCount with the leaf rule on their own curve length)
        if (sp->isCompound() && sp->getType() != ob::STATE_SPACE_REEDS_SHEPP && sp->getType() != ob::STATE_SPACE_DUBINS)
        {
            const auto *cs = sp->as<ob::CompoundStateSpace>();
            unsigned n = 0;
            for (unsigned i = 0; i < cs->getSubspaceCount(); i++)
                n = std::max(n, ownSegmentCount(cs->getSubspace(i).get(), a->as<ob::CompoundState>()->components[i],
                                                b->as<ob::CompoundState>()->components[i], frac));
            return n;
        }
        double len = frac * sp->getMaximumExtent();
        return sp->getValidSegmentCountFactor() * (unsigned)std::ceil(sp->distance(a, b) / len);
    }

    // largest spacing (in the space's own distance) between two checks of a validated motion, from the same rule: a
    // compound space takes the maximum count over its components and ignores its own count factor (the factor is not
    // propagated to components), so its spacing is bounded by the weighted sum of the components' spacings
    inline double resolutionLength(const ob::StateSpace *sp, double frac)
    {
        if (sp->isCompound() && sp->getType() != ob::STATE_SPACE_REEDS_SHEPP && sp->getType() != ob::STATE_SPACE_DUBINS)
        {
            const auto *cs = sp->as<ob::CompoundStateSpace>();
            double l = 0;
            for (unsigned i = 0; i < cs->getSubspaceCount(); i++)
                l += cs->getSubspaceWeight(i) * resolutionLength(cs->getSubspace(i).get(), frac);
            return l;
        }
        return frac * sp->getMaximumExtent() / std::max(1u, sp->getValidSegmentCountFactor());
    }

    struct SegmentVerdict
    {
        double worstRunSteps = 0;  // longest invalid stretch, in resolution steps of its motion
        size_t worstSegment = 0;
        unsigned worstN = 0;
        bool vertexInvalid = false;
        size_t badVertex = 0;
    };

    // dense re-validation of a state sequence with the world's own predicate (DESIGN 3.8)
    inline SegmentVerdict denseCheck(const World &w, const std::vector<ob::State *> &v, int perStep = 8)
    {
        SegmentVerdict r;
        ob::State *t = w.ss->allocState();
        for (size_t i = 0; i < v.size(); i++)
            if (!w.valid(v[i]) && !r.vertexInvalid)
            {
                r.vertexInvalid = true;
                r.badVertex = i;
            }
        for (size_t i = 0; i + 1 < v.size(); i++)
        {
            unsigned n = std::max(1u, ownSegmentCount(w.ss.get(), v[i], v[i + 1], w.requestedFraction));
            unsigned N = n * (unsigned)perStep;
            if (N > 200000)
                N = 200000;
            unsigned run = 0, maxrun = 0;
            for (unsigned j = 0; j <= N; j++)
            {
                w.ss->interpolate(v[i], v[i + 1], (double)j / N, t);
                if (!w.valid(t))
                {
                    run++;
                    maxrun = std::max(maxrun, run);
                }
                else
                    run = 0;
            }
            // a run of m consecutive invalid samples spans (m-1)/N of the motion at least. It is measured against the
            // space's resolution length (longest valid segment / count factor, the largest spacing between two
            // checks), an absolute length: a path made of many tiny motions (intermediate states) can legitimately
            // have one of them lie mostly inside an obstacle that hides between two checks of the validated motion.
            double resLen = resolutionLength(w.ss.get(), w.requestedFraction);
            double steps = maxrun == 0 ? 0.0 : (double)(maxrun - 1) / N * w.ss->distance(v[i], v[i + 1]) / resLen;
            if (steps > r.worstRunSteps)
            {
                r.worstRunSteps = steps;
                r.worstSegment = i;
                r.worstN = n;
            }
        }
        w.ss->freeState(t);
        return r;
    }
}  // namespace world
