// plansim: whole real planners on generated worlds, driven through histories of
// solve(cancel at PTC evaluation k) / clear / clearQuery / setProblemDefinition / getPlannerData /
// clearSolutionPaths, one forked child per case (DESIGN 3.3).  Serves C01, C03, C04.
#include "sim/runner.h"
#include "sim/sched.h"
#include "engines/world.h"
#include "engines/planners.h"
#include "engines/plan_c17.h"
#include "engines/detrun.h"

#include <ompl/base/PlannerData.h>
#include <ompl/base/goals/GoalLazySamples.h>
#include <ompl/base/PlannerTerminationCondition.h>
#include <ompl/base/objectives/PathLengthOptimizationObjective.h>
#include <ompl/base/objectives/StateCostIntegralObjective.h>
#include <ompl/base/objectives/MechanicalWorkOptimizationObjective.h>
#include <ompl/base/objectives/MaximizeMinClearanceObjective.h>
#include <ompl/base/objectives/MinimaxObjective.h>
#include <ompl/util/Console.h>
#include <ompl/util/RandomNumbers.h>

#include <fcntl.h>
#include <map>
#include <set>

using sim::Json;
using sim::fmt;
namespace ob = ompl::base;
namespace og = ompl::geometric;

namespace
{
    struct Specs
    {
        int recognizedGoal = 0;
        bool approx = false, optimizing = false, directed = false, intermediate = false;
        std::map<std::string, std::string> params;  // name -> range suggestion
    };
    std::map<std::string, Specs> g_specs;
    bool g_oneshot = false;  // this process is one of the separately started runs of a C20 case

    struct StopSolve : std::exception
    {
        const char *what() const noexcept override
        {
            return "termination condition evaluated 10^4 times after it fired";
        }
    };

    // counting termination condition: fires (stickily) at evaluation k
    struct Ptc
    {
        long k = 0, evals = 0, after = 0;
        bool fired = false;
        std::atomic<long> *validCalls = nullptr;
        long *validAtFire = nullptr;
        double cpuBudget = 1e9;
        // scheduled (threaded) cases: end the case right here instead of throwing through a planner's worker thread
        std::function<void(bool budget)> bail;
        ob::PlannerTerminationCondition make()
        {
            return ob::PlannerTerminationCondition([this] {
                if (fired)
                {
                    if (++after > 10000)
                    {
                        if (bail)
                            bail(false);
                        throw StopSolve();
                    }
                    return true;
                }
                if ((evals & 31) == 31 && world::cpuSeconds() > cpuBudget)
                {
                    if (bail)
                        bail(true);
                    throw world::BudgetExhausted();
                }
                if (evals++ >= k)
                {
                    fired = true;
                    if (validCalls && validAtFire)
                        *validAtFire = validCalls->load();
                    return true;
                }
                return false;
            });
        }
    };

    // cost field for the state-cost objectives: smooth, positive, closed form on the positional part
    class FieldObjective : public ob::StateCostIntegralObjective
    {
    public:
        FieldObjective(const ob::SpaceInformationPtr &si, const world::World *w, bool interp)
          : ob::StateCostIntegralObjective(si, interp), w_(w)
        {
        }
        ob::Cost stateCost(const ob::State *s) const override
        {
            double p[3] = {0, 0, 0};
            w_->pos(s, p);
            double L = w_->hi - w_->lo;
            return ob::Cost(1.0 + std::sin(6.0 * (p[0] - w_->lo) / L) * std::cos(4.0 * (p[1] - w_->lo) / L) * 0.8);
        }

    private:
        const world::World *w_;
    };
    class FieldWork : public ob::MechanicalWorkOptimizationObjective
    {
    public:
        FieldWork(const ob::SpaceInformationPtr &si, const world::World *w)
          : ob::MechanicalWorkOptimizationObjective(si), w_(w)
        {
        }
        ob::Cost stateCost(const ob::State *s) const override
        {
            double p[3] = {0, 0, 0};
            w_->pos(s, p);
            double L = w_->hi - w_->lo;
            return ob::Cost(2.0 + std::sin(5.0 * (p[0] - w_->lo) / L) + std::cos(3.0 * (p[1] - w_->lo) / L));
        }

    private:
        const world::World *w_;
    };

    ob::OptimizationObjectivePtr makeObjective(const world::WorldPtr &w, const Json &oj)
    {
        std::string t = oj.gets("type", "none");
        ob::OptimizationObjectivePtr o;
        if (t == "none")
            return o;
        if (t == "length")
            o = std::make_shared<ob::PathLengthOptimizationObjective>(w->si);
        else if (t == "field")
            o = std::make_shared<FieldObjective>(w->si, w.get(), oj.getb("interpolate"));
        else if (t == "work")
            o = std::make_shared<FieldWork>(w->si, w.get());
        else if (t == "clearance")
            o = std::make_shared<ob::MaximizeMinClearanceObjective>(w->si);
        else if (t == "multi")
        {
            auto m = std::make_shared<ob::MultiOptimizationObjective>(w->si);
            m->addObjective(std::make_shared<ob::PathLengthOptimizationObjective>(w->si), oj.getd("w_length", 1.0));
            m->addObjective(std::make_shared<FieldObjective>(w->si, w.get(), false), oj.getd("w_field", 0.5));
            m->lock();
            o = m;
        }
        if (o && oj.has("threshold"))
            o->setCostThreshold(ob::Cost(oj.getd("threshold")));
        return o;
    }

    // ---- generation -----------------------------------------------------------------------------------------
    Json genState(sim::Rng &g, const std::string &space, int dim, double lo, double hi, const double *p, int pdim)
    {
        // p: positional part (pdim entries); the rest random
        Json a = Json::array();
        if (space == "rv")
        {
            for (int i = 0; i < dim; i++)
                a.push(Json(i < pdim ? p[i] : g.real(lo, hi)));
        }
        else if (space == "se2" || space == "rs" || space == "dubins")
        {
            a.push(Json(p[0]));
            a.push(Json(p[1]));
            a.push(Json(g.real(-3.14159, 3.14159)));
        }
        else if (space == "se3")
        {
            a.push(Json(p[0]));
            a.push(Json(p[1]));
            a.push(Json(p[2]));
            double q[4], n = 0;
            for (auto &x : q)
            {
                x = g.real(-1, 1);
                n += x * x;
            }
            n = std::sqrt(n);
            if (n < 1e-3)
            {
                q[0] = q[1] = q[2] = 0;
                q[3] = 1;
                n = 1;
            }
            for (auto x : q)
                a.push(Json(x / n));
        }
        else  // cmp
        {
            a.push(Json(p[0]));
            a.push(Json(p[1]));
            a.push(Json(g.real(-3.14159, 3.14159)));
            a.push(Json(g.real(-1, 1)));
        }
        return a;
    }

    bool posFree(const std::vector<world::Obst> &obst, const double *p, int pdim, double margin)
    {
        for (auto &o : obst)
        {
            if (o.type == 0)
            {
                bool in = true;
                for (int i = 0; i < pdim && in; i++)
                    in = p[i] >= o.lo[i] - margin && p[i] <= o.hi[i] + margin;
                if (in)
                    return false;
            }
            else
            {
                double d = 0;
                for (int i = 0; i < pdim; i++)
                    d += (p[i] - o.c[i]) * (p[i] - o.c[i]);
                if (std::sqrt(d) <= o.r + margin)
                    return false;
            }
        }
        return true;
    }

    struct GenWorld
    {
        Json world;
        std::vector<Json> queries;
    };

    // nq queries on one world; goal types restricted by what the planner recognises
    GenWorld genWorld(sim::Rng &g, const std::string &planner, const Specs &sp, int nq, bool allowInvalidStarts)
    {
        GenWorld G;
        Json w = Json::object();
        static const char *spaces[] = {"rv", "rv", "rv", "rv", "se2", "se2", "se3", "cmp", "cmp", "rs"};
        std::string space = g.pick(spaces);
        if (space == "rs" && !sp.directed)
            space = "se2";  // the statement ranges over Dubins / Reeds-Shepp for direction-aware planners only
        w["space"] = space;
        int dim = 2, pdim = 2;
        if (space == "rv")
        {
            dim = (int)g.range(2, 6);
            pdim = dim >= 3 && g.chance(0.4) ? 3 : 2;
            w["dim"] = dim;
            w["pdim"] = pdim;
        }
        else if (space == "se3")
            pdim = 3;
        static const double los[] = {0, 0, -5, -100, 0};
        static const double his[] = {10, 10, 5, -90, 1};
        int bi = (int)g.below(5);
        double lo = los[bi], hi = his[bi], L = hi - lo;
        w["lo"] = lo;
        w["hi"] = hi;
        if (space == "rs")
            w["turning_radius"] = L * g.real(0.05, 0.2);
        if (space == "cmp")
        {
            w["w0"] = g.pick(std::vector<double>{1.0, 1.0, 0.3, 3.0});
            w["w1"] = g.pick(std::vector<double>{0.5, 1.0, 0.1});
            w["w2"] = g.pick(std::vector<double>{2.0, 1.0, 0.2});
        }
        double res = g.logReal(0.003, 0.05);
        w["resolution"] = res;
        if (g.chance(0.15))
            w["count_factor"] = (long)g.range(2, 3);
        // query end points first, obstacles are then placed so that most end points stay free
        std::vector<std::vector<double>> keep;
        auto rndPos = [&]() {
            std::vector<double> p(3, 0.0);
            for (int i = 0; i < pdim; i++)
                p[(size_t)i] = g.real(lo + 0.05 * L, hi - 0.05 * L);
            return p;
        };
        struct QP
        {
            std::vector<std::vector<double>> starts, goals;
        };
        std::vector<QP> qps;
        for (int q = 0; q < nq; q++)
        {
            QP qp;
            int ns = g.chance(0.75) ? 1 : (int)g.range(2, 3);
            if (planner == "LBTRRT" || planner == "LazyLBTRRT")
                ns = 1;  // documented: "multiple start states - currently not supported" (refused with INVALID_START)
            for (int i = 0; i < ns; i++)
                qp.starts.push_back(rndPos());
            int ng = g.chance(0.7) ? 1 : (int)g.range(2, 3);
            for (int i = 0; i < ng; i++)
                qp.goals.push_back(rndPos());
            for (auto &s : qp.starts)
                keep.push_back(s);
            for (auto &s : qp.goals)
                keep.push_back(s);
            qps.push_back(qp);
        }
        std::vector<world::Obst> obst;
        Json oj = Json::array();
        int nobst = g.chance(0.1) ? 0 : (int)g.range(1, 7);
        for (int k = 0; k < nobst * 3 && (int)obst.size() < nobst; k++)
        {
            world::Obst o;
            Json j = Json::object();
            int kind = (int)g.below(10);
            if (kind < 3)  // ball
            {
                o.type = 1;
                o.r = L * g.real(0.04, 0.18);
                Json c = Json::array();
                for (int i = 0; i < pdim; i++)
                {
                    o.c[i] = g.real(lo, hi);
                    c.push(Json(o.c[i]));
                }
                j["t"] = "ball";
                j["c"] = c;
                j["r"] = o.r;
            }
            else
            {
                o.type = 0;
                Json l = Json::array(), h2 = Json::array();
                int thinAxis = kind < 7 ? (int)g.below((uint64_t)pdim) : -1;  // thin slab vs box
                for (int i = 0; i < pdim; i++)
                {
                    double c = g.real(lo, hi);
                    double half = (i == thinAxis) ? L * g.logReal(0.0005, 0.01) : L * g.real(0.03, thinAxis >= 0 ? 0.4 : 0.15);
                    o.lo[i] = c - half;
                    o.hi[i] = c + half;
                    l.push(Json(o.lo[i]));
                    h2.push(Json(o.hi[i]));
                }
                for (int i = pdim; i < 3; i++)
                {
                    o.lo[i] = -1e18;
                    o.hi[i] = 1e18;
                }
                j["t"] = "box";
                j["lo"] = l;
                j["hi"] = h2;
            }
            std::vector<world::Obst> one{o};
            bool ok = true;
            for (auto &p : keep)
                if (!posFree(one, p.data(), pdim, 0.02 * L))
                    ok = false;
            if (!ok)
                continue;
            obst.push_back(o);
            oj.push(j);
        }
        w["obstacles"] = oj;
        G.world = w;
        // queries
        for (int q = 0; q < nq; q++)
        {
            Json Q = Json::object();
            Json starts = Json::array();
            for (auto &s : qps[(size_t)q].starts)
                starts.push(genState(g, space, dim, lo, hi, s.data(), pdim));
            bool singleStartOnly = planner == "LBTRRT" || planner == "LazyLBTRRT";
            if (allowInvalidStarts && !singleStartOnly && !obst.empty() && g.chance(0.12))
            {
                // an invalid start (inside an obstacle) and/or an out-of-bounds start among the starts
                const world::Obst &o = obst[g.below(obst.size())];
                double p[3];
                for (int i = 0; i < 3; i++)
                    p[i] = o.type == 0 ? 0.5 * (std::max(o.lo[i], lo) + std::min(o.hi[i], hi)) : o.c[i];
                Json bad = genState(g, space, dim, lo, hi, p, pdim);
                if (g.chance(0.25))
                    starts = Json::array();  // every start invalid
                starts.items().insert(starts.items().begin() + (long)g.below(starts.size() + 1), bad);
            }
            if (allowInvalidStarts && !singleStartOnly && g.chance(0.05))
            {
                double p[3] = {hi + 0.3 * L, lo - 0.1 * L, lo};
                starts.items().insert(starts.items().begin(), genState(g, space, dim, lo, hi, p, pdim));
            }
            Q["starts"] = starts;
            Json goal = Json::object();
            std::string gt = "state";
            double u = g.unit();
            if (sp.recognizedGoal == (int)ob::GOAL_ANY)
                gt = u < 0.5 ? "state" : (u < 0.7 ? "states" : "region");
            else if (sp.recognizedGoal == (int)ob::GOAL_SAMPLEABLE_REGION)
                gt = u < 0.7 ? "state" : "states";
            goal["type"] = gt;
            static const double thrs[] = {0.0, 1e-3, 0.01, 0.02, 0.05, 0.1, 0.3};
            double thr = g.pick(thrs) * L;
            if (thr == 0.0)
                thr = 2.220446049250313e-16;  // the library's own default for setGoalState (with 0 the region is empty)
            if (gt == "region" && thr < 0.01 * L)
                thr = 0.03 * L;
            goal["threshold"] = thr;
            if (gt == "region")
            {
                Json c = Json::array();
                for (int i = 0; i < pdim; i++)
                    c.push(Json(qps[(size_t)q].goals[0][(size_t)i]));
                goal["center"] = c;
            }
            else
            {
                Json gs = Json::array();
                size_t ng = gt == "state" ? 1 : qps[(size_t)q].goals.size();
                for (size_t i = 0; i < ng; i++)
                    gs.push(genState(g, space, dim, lo, hi, qps[(size_t)q].goals[i].data(), pdim));
                if (g.chance(0.03))
                {
                    // start inside the goal region (not identical to the goal state: a zero focal distance is outside
                    // the informed samplers' domain, "The transformation is not up to date in the PHS class")
                    gs.at(0) = starts.at(starts.size() - 1);
                    gs.at(0).at(0) = Json(gs.at(0).at(0).d() + 0.004 * L);
                    goal["threshold"] = std::max(thr, 0.02 * L);
                }
                goal["states"] = gs;
            }
            Q["goal"] = goal;
            G.queries.push_back(Q);
        }
        return G;
    }

    // configurations the generator does not produce, with the reason (all are library warts outside the listed
    // properties, sighted by this harness and recorded in DESIGN.md App. B):
    //  * EITstar/EIRMstar use_k_nearest=0: setup() dereferences a sampler that does not exist yet (null deref in
    //    RandomGeometricGraph::computeRadius)
    bool excludedParam(const std::string &planner, const std::string &n)
    {
        if ((planner == "EITstar" || planner == "EIRMstar") && n == "use_k_nearest")
            return true;
        //  * RRT* family ordered_sampling=1 without informed sampling / sample rejection: solve() wraps a null informed
        //    sampler in OrderedInfSampler (null deref in its constructor)
        if (n == "ordered_sampling")
            return true;
        //  * RRT* pruned_measure=1 without informed sampling: the library logs "InformedMeasure requires InformedSampling and
        //    TreePruning" (OMPL_ERROR) but keeps the setting; pruneTree() then dereferences the informed sampler that does not
        //    exist. A combination the library itself reports as an error is outside the quantifier.
        if (planner == "RRTstar" && n == "pruned_measure")
            return true;
        return false;
    }

    Json genParams(sim::Rng &g, const std::string &planner, const Specs &sp, double L)
    {
        Json p = Json::object();
        for (auto &kv : sp.params)
        {
            const std::string &n = kv.first;
            const std::string &r = kv.second;
            if (excludedParam(planner, n))
                continue;
            if (n == "range" || n == "max_dist_near")
            {
                if (g.chance(0.5))
                    p[n] = fmt("%.6g", L * g.pick(std::vector<double>{0.02, 0.05, 0.1, 0.3, 1.0, 5.0}));
            }
            else if (n == "goal_bias")
            {
                if (g.chance(0.4))
                    p[n] = fmt("%.3g", g.pick(std::vector<double>{0.0, 0.01, 0.05, 0.2, 0.5, 0.9}));
            }
            else if (r == "0,1")
            {
                // (approximate solutions are what an interrupted solve() hands out: the switch that enables them - off by
                // default in the BIT* family - is on in half of the cases)
                if (n.find("approximate") != std::string::npos)
                {
                    if (g.chance(0.6))
                        p[n] = g.chance(0.8) ? "1" : "0";
                }
                else if (g.chance(0.25))
                    p[n] = g.chance(0.5) ? "1" : "0";
            }
            else if (n == "samples_per_batch" || n == "batch_size")
            {
                if (g.chance(0.5))
                    p[n] = fmt("%ld", (long)g.pick(std::vector<double>{1, 5, 20, 100, 300}));
            }
            else if (n == "num_samples")
            {
                p[n] = fmt("%ld", (long)g.pick(std::vector<double>{30, 100, 300, 1000}));
            }
            else if (n == "rewire_factor")
            {
                if (g.chance(0.3))
                    p[n] = fmt("%.3g", g.real(1.0, 2.0));
            }
            else if (n == "epsilon" || n == "prune_threshold" || n == "border_fraction" || n == "temp_change_factor" ||
                     n == "min_valid_path_fraction")
            {
                if (g.chance(0.25))
                    p[n] = fmt("%.3g", g.real(0.05, 0.95));
            }
            else if (n == "rejection_variant")
            {
                if (g.chance(0.3))
                    p[n] = fmt("%ld", g.range(0, 3));
            }
            else if (n == "max_nearest_neighbors")
            {
                if (g.chance(0.3))
                    p[n] = fmt("%ld", g.range(2, 20));
            }
            else if (n == "selection_radius" || n == "pruning_radius")
            {
                if (g.chance(0.4))
                    p[n] = fmt("%.4g", L * g.pick(std::vector<double>{0.0, 0.01, 0.05, 0.2}));
            }
            else if (n == "set_max_num_goals")
            {
                if (g.chance(0.3))
                    p[n] = fmt("%ld", g.range(1, 5));
            }
        }
        return p;
    }
}  // namespace

class PlanSim : public sim::Engine
{
public:
    std::string name() const override
    {
        return "plansim";
    }
    bool forkPerCase() const override
    {
        return true;
    }
    long defaultCases(const sim::Options &o) const override
    {
        return o.thorough() ? 100000000 : 100000000;  // bounded by the time budget
    }
    double defaultBudget(const sim::Options &o) const override
    {
        return o.thorough() ? 900 : 45;
    }
    int cpuLimit(const sim::Options &o) const override
    {
        return o.thorough() ? 30 : 10;  // a running solve is abandoned (inconclusive) well before: see cpuBudget
    }
    void init(const sim::Options &) override
    {
        ompl::msg::noOutputHandler();
        rngfault::install();
        Json d = Json::object();
        d["space"] = "rv";
        d["dim"] = 2;
        auto w = world::build(d);
        for (auto &info : planners::geometric())
        {
            auto p = planners::makeGeometric(info.name, w->si);
            Specs s;
            const auto &ps = p->getSpecs();
            s.recognizedGoal = (int)ps.recognizedGoal;
            s.approx = ps.approximateSolutions;
            s.optimizing = ps.optimizingPaths;
            s.directed = ps.directed;
            s.intermediate = ps.canReportIntermediateSolutions;
            for (auto &kv : p->params().getParams())
                s.params[kv.first] = kv.second->getRangeSuggestion();
            if (info.multilevel)
                s.recognizedGoal = (int)ob::GOAL_SAMPLEABLE_REGION;  // only goal state(s) can be projected onto the lower levels
            g_specs[info.name] = s;
        }
    }

    // planners a property draws from
    std::vector<std::string> eligible(const sim::Options &o) const
    {
        std::vector<std::string> v;
        std::string only = o.get("planner");
        for (auto &i : planners::geometric())
        {
            // threaded planners run under the scheduler only, never with free-running threads: C19-B, and the separate
            // scheduled share of C03 (--threaded 1: interrupt / resume / clear histories of PRM, SPARS, SPARStwo, pRRT, pSBL,
            // CForest, AnytimePathShortening with every thread switch decided by the seeded scheduler)
            if (i.threaded != (o.prop == "C19" || o.get("threaded") == "1"))
                continue;
            if (!only.empty() && i.name != only)
                continue;
            if (o.prop == "C04" && !costAware(i.name))
                continue;
            v.push_back(i.name);
        }
        return v;
    }
    static bool costAware(const std::string &n)
    {
        static const std::set<std::string> s = {"RRTstar",  "InformedRRTstar", "SORRTstar", "RRTsharp",    "RRTXstatic",
                                                "BITstar",  "ABITstar",        "AITstar",   "EITstar",     "EIRMstar",
                                                "LazyPRMstar", "FMT",          "BFMT",      "LBTRRT",      "LazyLBTRRT",
                                                "SST",      "TRRT",            "BiTRRT",    "LazyPRM"};
        return s.count(n) > 0;
    }

    Json generate(const sim::Options &o, uint64_t caseSeed, long index) override
    {
        // C03 enumerates the cancellation index k within a base case (fault enumeration)
        long stride = o.thorough() ? 160 : 32;
        long base = index, j = 0;
        uint64_t seed = caseSeed;
        if (o.prop == "C03")
        {
            base = index / stride;
            j = index % stride;
            seed = sim::mix(sim::mix(o.seed, "C03-base"), (uint64_t)base);
        }
        sim::Rng g(seed);
        bool late = false, distYield = false;
        if (o.prop == "C04" && o.get("planner").empty() && index % 3 == 2)
            return genSolset(g);
        if (o.prop == "C17")
        {
            Json plan = Json::object();
            plan["kind"] = "simplify";
            plan["planner"] = "RRTConnect";
            GenWorld G = genWorld(g, "RRTConnect", g_specs["RRTConnect"], 1, false);
            if (G.world.gets("space") == "rs")
                G.world["space"] = "se2";  // the length clauses are about metric spaces
            plan["world"] = G.world;
            Json qs = Json::array();
            qs.push(G.queries[0]);
            plan["queries"] = qs;
            plan["ompl_seed"] = (long)g.range(1, 2000000000);
            plan["repeat_states"] = g.chance(0.2);
            plan["ops"] = c17::genOps(g, o.thorough());
            // (decided by a stream of its own so that the other plans keep their meaning) a direction-dependent world: Dubins
            // curves, asymmetric distance - only the routines the library applies to non-metric spaces, no length clauses
            {
                sim::Rng gdub(sim::mix(caseSeed, "c17-dubins"));
                if (G.world.gets("space") == "se2" && gdub.chance(0.35))
                {
                    plan["world"]["space"] = "dubins";
                    plan["world"]["turning_radius"] = (G.world.getd("hi") - G.world.getd("lo")) * gdub.pick(std::vector<double>{0.02, 0.05, 0.12});
                    plan["ops"] = c17::genOps(gdub, o.thorough(), true);
                    plan["repeat_states"] = false;
                }
            }
            // (drawn last so that earlier plans keep their meaning) a path whose states are all the same state: total length 0
            if (g.chance(0.04))
                plan["degenerate"] = (long)g.range(2, 5);
            return plan;
        }
        auto el = eligible(o);
        if (el.empty())
        {
            fprintf(stderr, "no planner of this run's share matches --planner %s\n", o.get("planner").c_str());
            Json plan = Json::object();
            plan["kind"] = "none";
            return plan;
        }
        // round-robin over planners so every planner gets its share, seed decides the rest
        std::string planner = el[(size_t)(base % (long)el.size())];
        const Specs &sp = g_specs[planner];
        Json plan = Json::object();
        plan["kind"] = "plan";
        plan["planner"] = planner;
        int nq = o.prop == "C03" ? 2 : 1;
        GenWorld G = genWorld(g, planner, sp, nq, o.prop != "C04");
        plan["world"] = G.world;
        Json qs = Json::array();
        for (auto &q : G.queries)
            qs.push(q);
        plan["queries"] = qs;
        double L = G.world.getd("hi") - G.world.getd("lo");
        plan["params"] = genParams(g, planner, sp, L);
        if (auto *pi = planners::findGeometric(planner))
            if (pi->multilevel)
            {
                // two levels (positions first, then the full space) where the library can guess the projection
                std::string sp_ = G.world.gets("space");
                bool can = sp_ == "se2" || sp_ == "se3" || (sp_ == "rv" && G.world.geti("dim", 2) > G.world.geti("pdim", 2));
                plan["levels"] = (can && g.chance(0.7)) ? 2L : 1L;
            }
        static const char *nns[] = {"", "", "gnat", "gnat_nts", "linear", "sqrt"};
        plan["nn"] = g.pick(nns);
        plan["ompl_seed"] = (long)g.range(1, 2000000000);
        late = true;
        Json obj = Json::object();
        if (o.prop == "C04")
        {
            static const char *objs[] = {"length", "length", "length", "field", "work", "clearance", "multi"};
            std::string t = g.pick(objs);
            // planners restricted to path length by design (informed / lazy-bound planners) keep it
            static const std::set<std::string> lengthOnly = {"InformedRRTstar", "SORRTstar", "LBTRRT", "LazyLBTRRT",
                                                             "LazyPRM", "LazyPRMstar", "BITstar", "ABITstar",
                                                             "AITstar", "EITstar", "EIRMstar"};
            if (lengthOnly.count(planner))
                t = "length";
            obj["type"] = t;
            if (t == "field")
                obj["interpolate"] = g.chance(0.5);
            if (t == "multi")
            {
                obj["w_length"] = g.real(0.2, 2.0);
                obj["w_field"] = g.real(0.2, 2.0);
            }
            if (t == "length" && g.chance(0.4))
                obj["threshold"] = L * g.pick(std::vector<double>{0.5, 1.0, 1.5, 3.0, 1000.0});
        }
        else
            obj["type"] = sp.optimizing ? (g.chance(0.8) ? "length" : "none") : (g.chance(0.2) ? "length" : "none");
        plan["objective"] = obj;

        const bool threadedPlanner = planners::findGeometric(planner) && planners::findGeometric(planner)->threaded;
        if (o.prop == "C19" || threadedPlanner)
        {
            Json sch = Json::object();
            sch["seed"] = (long)g.range(1, 1000000000);
            sch["policy"] = (long)g.below(3);
            sch["pct_depth"] = (long)g.range(1, 3);
            sch["quantum"] = (long)g.range(1, 30);
            sch["cost_us"] = (long)g.pick(std::vector<double>{2, 10, 50});
            sch["jitter_us"] = g.chance(0.3) ? (long)g.range(1, 20) : 0L;
            if (g.chance(0.2))
            {
                sch["starve_thread"] = (long)g.range(1, 4);
                sch["starve_yields"] = (long)g.range(10, 2000);
            }
            if (g.chance(0.3))
                sch["terminate_after_ms"] = g.pick(std::vector<double>{0.0, 0.5, 5, 50, 400});
            plan["sched"] = sch;
            distYield = true;
            if (planner == "pRRT" || planner == "pSBL")
                plan["params"]["thread_count"] = fmt("%ld", g.range(2, 4));
            if (planner == "CForest")
                plan["params"]["num_threads"] = fmt("%ld", g.range(2, 4));
            if (planner == "AnytimePathShortening")
                plan["params"]["num_planners"] = fmt("%ld", g.range(2, 3));
            // a lazily sampled goal (producer thread) for planners that sample goals
            if (sp.recognizedGoal != (int)ob::GOAL_STATE && g.chance(0.3) && plan["queries"].at(0)["goal"].gets("type") != "region")
            {
                plan["queries"].at(0)["goal"]["type"] = "lazy";
                plan["queries"].at(0)["goal"]["delay_ms"] = g.pick(std::vector<double>{0.0, 1, 12, 30, 150});
            }
        }
        Json ops = Json::array();
        bool brokenEverywhere = planner == "LazyLBTRRT" || (planners::findGeometric(planner) && planners::findGeometric(planner)->multilevel);
        if (o.prop == "C03" && brokenEverywhere && j >= 4)
        {
            // known-broken planners (known_findings.json: LazyLBTRRT, the multilevel planners): their failures would eat the
            // budget of the enumeration, so they are sampled at k = 0..3 only
            plan["ops"] = ops;
            return plan;
        }
        auto solve = [&](long k) {
            Json op = Json::object();
            op["op"] = "solve";
            op["k"] = Json(k);
            ops.push(op);
        };
        auto simple = [&](const char *n) {
            Json op = Json::object();
            op["op"] = n;
            ops.push(op);
        };
        long budget = o.thorough() ? 6000 : 1500;
        if (o.prop == "C19")
        {
            solve(g.chance(0.6) ? g.range(200, 1500) : g.range(0, 200));
            if (g.chance(0.25))
                solve(g.range(0, 600));
        }
        else if (o.prop == "C20")
        {
            solve(g.chance(0.5) ? g.range(0, 300) : g.range(300, budget));
            if (g.chance(0.3))
                solve(g.range(0, 500));
            plan["perturb_seed"] = (long)g.range(1, 1000000000);
            if (g.chance(0.04))
                plan["ompl_seed"] = 0L;  // accepted with a warning ("Using 1 instead"): must reproduce like any other seed
        }
        else if (o.prop == "C01")
        {
            if (g.chance(0.7))
                solve(g.pick(std::vector<double>{300, 1000, (double)budget}));
            else
                solve(g.range(0, 200));
            if (g.chance(0.3))
                solve(g.range(0, budget));
        }
        else if (o.prop == "C04")
        {
            int n = (int)g.range(1, 4);
            for (int i = 0; i < n; i++)
            {
                solve(g.chance(0.5) ? g.range(0, 300) : g.range(300, budget));
                if (g.chance(0.1))
                    simple("getdata");
            }
        }
        else  // C03
        {
            // k enumerated densely from 0, the last slots of the stride reach far beyond the first solution
            long dense = stride - 8;
            long k = j < dense ? j : (long)(dense * std::pow(1.6, (double)(j - dense + 1)));
            solve(k);
            // the rest of the history depends on the base case only
            int n = (int)g.range(1, 5);
            bool cleared = false;
            for (int i = 0; i < n; i++)
            {
                double u = g.unit();
                if (u < 0.35)
                    solve(g.chance(0.5) ? g.range(0, 60) : g.range(60, budget / 2));
                else if (u < 0.5)
                    simple("getdata");
                else if (u < 0.7)
                {
                    // forget the old query: clear() or clearQuery(), then a new problem definition (either order)
                    Json op = Json::object();
                    op["op"] = "newquery";
                    op["how"] = g.pick(std::vector<std::string>{"clear-then-set", "set-then-clear", "clearquery-then-set"});
                    // the roadmap planners override setProblemDefinition() to forget the old query themselves (it calls
                    // their clearQuery()): for them the bare switch to another problem definition is a complete history op
                    static const std::set<std::string> setForgetsQuery = {"PRM", "PRMstar", "LazyPRM", "LazyPRMstar", "SPARS", "SPARStwo"};
                    if (setForgetsQuery.count(planner) && g.chance(0.4))
                        op["how"] = "set-only";
                    op["query"] = cleared ? 0 : 1;
                    ops.push(op);
                    cleared = !cleared;
                    solve(g.chance(0.3) ? g.range(0, 40) : g.range(40, budget / 2));

                }
                else if (u < 0.8)
                {
                    simple("clear");
                    solve(g.range(0, budget / 2));
                }
                else
                    simple("getdata");
                // (pdef->clearSolutionPaths() between solves is likewise outside the quantified calls: AIT* dereferences
                // a null vertex and PDST reports "Exact solution" without re-adding a path after it)
                // (a second setup() is not among the calls the statement quantifies over: projection-based planners
                // terminate in Grid::setDimension and EIT* frees live queue entries when set up twice)
            }
        }
        // (drawn last) "the next solve() behaves like a first one", literally: the solve after clear() + new problem
        // definition runs with every random draw taken from one harness stream (H1, all-draws mode), and so does the first
        // solve of a never-used planner of the same configuration on the same query: status, evaluations and path must agree
        if (o.prop == "C03")
        {
            for (size_t ri = 0; ri < ops.size(); ri++)
                if (ops.at(ri).gets("op") == "newquery" && ops.at(ri).gets("how") != "clearquery-then-set" && ops.at(ri).gets("how") != "set-only" &&
                    ri + 1 < ops.size() && ops.at(ri + 1).gets("op") == "solve" && !threadedPlanner && !brokenEverywhere && g.chance(0.6))
                    ops.at(ri + 1)["ref_stream"] = (long)g.range(1, 2000000000);
        }
        plan["ops"] = ops;
        // (drawn last) the resolution is set after the space information's first setup()
        if (late && g.chance(0.3))
            plan["world"]["late_resolution"] = true;
        // (drawn last) scheduled cases: yield points inside distance computations (every n-th)
        if (distYield)
            plan["sched"]["dist_yield_every"] = g.pick(std::vector<long>{0, 0, 1, 3, 17, 101});
        return plan;
    }

    sim::CaseResult run(const sim::Options &o, const Json &plan) override;
    sim::CaseResult runSolset(const sim::Options &o, const Json &plan);
    sim::CaseResult runDet(const sim::Options &o, const Json &plan);

    // C04(e): a multiset of solutions (exact / approximate / objective-satisfying, ties, equal costs) added one by one
    // to a problem definition; after every add the set must be ordered as the statement says
    Json genSolset(sim::Rng &g)
    {
        Json plan = Json::object();
        plan["kind"] = "solset";
        plan["planner"] = "none";
        plan["with_objective"] = g.chance(0.7);
        plan["maximize"] = g.chance(0.2);
        int n = (int)g.range(1, 14);
        int span = g.chance(0.5) ? 3 : 50;  // few distinct values => many ties
        Json ops = Json::array();
        for (int i = 0; i < n; i++)
        {
            Json op = Json::object();
            op["op"] = "add";
            bool approx = g.chance(0.35);
            op["approximate"] = approx;
            if (approx)
                op["difference"] = (double)g.range(0, span) / 4.0;
            // (approximate solutions can carry the flag too: BIT* sets it from the stored cost; they are still ordered by goal difference)
            op["optimized"] = g.chance(approx ? 0.5 : 0.4);
            op["cost"] = (double)g.range(0, span) / 2.0;
            op["length"] = (double)g.range(0, span) / 2.0;
            if (g.chance(0.1))
            {
                Json c = Json::object();
                c["op"] = "clearsolutions";
                ops.push(c);
            }
            ops.push(op);
        }
        plan["ops"] = ops;
        return plan;
    }

    std::string crashContext(const Json &plan) const override
    {
        return " planner=" + plan.gets("planner") + mlContextOf(plan);
    }
    static std::string mlContextOf(const Json &plan);
    bool judgesCrashes(const sim::Options &o) const override
    {
        return o.prop == "C03" || o.prop == "C19" || o.prop == "C17";  // "does not crash" is C03's clause (C19-B: its threaded planners); C01/C04 judge what solve() reports
    }
    void atChildExit(Json &e) override
    {
        auto &l = world::ledger();
        e["live_states"] = Json((long)l.live.size());
        e["bad_frees"] = Json(l.badFrees);
        e["allocs"] = Json(l.allocs);
    }
    void judgeExit(const sim::Options &o, const Json &plan, sim::CaseResult &r, const Json &e) override
    {
        if (o.prop != "C03" || e.isNull())
            return;
        // a solve() that refused its configuration with a documented ompl::Exception left through the exception
        // path (planners are not exception safe): what it leaks there is not an interruption leak and is not judged
        if (r.info.has("solve_exception"))
            return;
        std::string pl = plan.gets("planner");
        r.info["live_states_at_exit"] = e["live_states"];
        if (e.geti("bad_frees") > 0)
            r.violate("C03.free-of-non-live-state planner=" + pl + mlContextOf(plan),
                      fmt("%ld frees of states that were not live (double free / foreign state)", (long)e.geti("bad_frees")));
        if (e.geti("live_states") > 0)
            r.violate("C03.state-leak planner=" + pl + mlContextOf(plan),
                      fmt("%ld of %ld allocated states still live at process exit, after all destructors ran",
                          (long)e.geti("live_states"), (long)e.geti("allocs")));
    }

    std::vector<Json> simplifications(const Json &plan) override
    {
        std::vector<Json> out;
        // drop obstacles one at a time
        for (size_t k = 0; k < plan["world"]["obstacles"].size(); k++)
        {
            Json p = plan;
            p["world"]["obstacles"].items().erase(p["world"]["obstacles"].items().begin() + (long)k);
            out.push_back(p);
        }
        // default knobs
        for (auto &kv : plan["params"].members())
        {
            Json p = plan;
            p["params"].erase(kv.first);
            out.push_back(p);
        }
        if (plan.gets("nn") != "")
        {
            Json p = plan;
            p["nn"] = "";
            out.push_back(p);
        }
        if (plan["world"].has("count_factor"))
        {
            Json p = plan;
            p["world"].erase("count_factor");
            out.push_back(p);
        }
        // fewer starts / goal states
        for (size_t q = 0; q < plan["queries"].size(); q++)
        {
            if (plan["queries"].at(q)["starts"].size() > 1)
                for (size_t k = 0; k < plan["queries"].at(q)["starts"].size(); k++)
                {
                    Json p = plan;
                    auto &v = p["queries"].at(q)["starts"].items();
                    v.erase(v.begin() + (long)k);
                    out.push_back(p);
                }
        }
        // smaller cancellation indices
        const auto &ops = plan["ops"].items();
        for (size_t k = 0; k < ops.size(); k++)
            if (ops[k].gets("op") == "solve" && ops[k].geti("k") > 0)
            {
                for (long nk : {0L, (long)ops[k].geti("k") / 2, (long)ops[k].geti("k") - 1})
                    if (nk != ops[k].geti("k"))
                    {
                        Json p = plan;
                        p["ops"].at(k)["k"] = Json(nk);
                        out.push_back(p);
                    }
            }
        return out;
    }

    std::string rule(const sim::Options &o) const override
    {
        if (o.prop == "C17")
            return "case = generated world (R^n, SE(2), SE(3), weighted compound; balls, boxes, sub-resolution slabs) x an input path "
                   "produced by real planners (RRTConnect, RRT; sometimes with repeated states / zero-length segments added) x a "
                   "history of 1-4 (quick) post-processing routines (reduceVertices, ropeShortcutPath, partialShortcutPath, "
                   "collapseCloseVertices, smoothBSpline, perturbPath, findBetterGoal(ptc / maxTime), simplify(ptc / maxTime), "
                   "simplifyMax, interpolate(n), interpolate(), subdivide, PathHybridization) with generated parameters, with or "
                   "without objective and goal; the simulator owns the routine's random stream (seed + extreme-draw bursts through "
                   "H1), the cancellation index (F1) and the clock of the timed forms (simulated). non-trivial = at least one routine "
                   "ran on a real path and was judged; distinct = distinct (space, routine sequence, fault) signatures";
        if (o.prop == "C03")
            return "fault enumeration: for each base case (planner round-robin over all single-threaded geometric "
                   "planners, generated world/query/knobs/seed) the first solve is cancelled at EVERY termination-"
                   "condition evaluation index k = 0..K_dense-1 (K_dense = 40 quick / 152 thorough) plus 8 "
                   "geometrically spaced larger k reaching beyond the first solution, each in its own forked child, "
                   "followed by a generated history of resume / getPlannerData / clear / clearQuery / new problem "
                   "definition / clearSolutionPaths / setup ops. non-trivial = the cancellation landed while the "
                   "planner was running (PTC fired) and the history had >= 2 ops; distinct = distinct (planner, space, "
                   "goal type, history op kinds, outcome classes, fired-before/after-first-solution) signatures";
        if (o.prop == "C04")
            return "case = cost-aware planner (round-robin) x generated world x objective (path length with/without "
                   "threshold, state-cost integral, mechanical work, max-min clearance, weighted multi-objective) x "
                   "history of 1-4 continued solves cut at simulator-chosen evaluation counts. non-trivial = at least "
                   "one solution with a recorded objective was judged; distinct = distinct (planner, space, objective, "
                   "#solves, outcome classes) signatures";
        return "case = single-threaded geometric planner (round-robin over 33) x generated world (R^n, SE(2), SE(3), "
               "weighted compound, Reeds-Shepp; balls, boxes, thin slabs; resolution; 1-3 starts incl. invalid / "
               "out-of-bounds ones; state / states / non-sampleable region goals; thresholds from 0) x planner knobs x "
               "nearest-neighbour structure x seed, one or two solves cancelled at a simulator-chosen PTC evaluation. "
               "non-trivial = at least one solution path was judged by the path oracle; distinct = distinct (planner, "
               "space, goal type, start class, outcome classes) signatures";
    }
    std::vector<std::string> realComponents(const sim::Options &) const override
    {
        return {"all single-threaded geometric planners (33)", "state spaces, samplers, DiscreteMotionValidator",
                "nearest-neighbour structures", "ProblemDefinition / PlannerSolution set", "PlannerInputStates",
                "PlannerTerminationCondition wrapper", "optimization objectives", "PlannerData", "ompl::RNG (seeded)"};
    }
    std::vector<std::string> stubComponents(const sim::Options &) const override
    {
        return {"state validity checker (harness: exact closed-form obstacles)", "termination predicate (harness: "
                "fires at evaluation k)", "goal region for 'region' goals (harness)", "cost field of state-cost "
                "objectives (harness)", "state allocation ledger (Counting<> mix-in over the real spaces)"};
    }
    std::vector<std::string> assumptions(const sim::Options &o) const override
    {
        std::vector<std::string> a = {
            "planners that own threads or wall-clock windows (pRRT, pSBL, PRM, PRM*, SPARS, SPARStwo, CForest, "
            "AnytimePathShortening) are not run here but under the scheduler (C19-B)",
            "dense path oracle trusts StateSpace::interpolate/distance (C06/C07 not applicable) and judges with the "
            "world's own closed-form predicate; bound = 2 resolution steps as the statement says",
        };
        if (o.prop == "C03")
            a.push_back("states are accounted at process exit, after static destructors (BIT*-family parks vertices in "
                        "a function-static set by design); non-state memory leaks are outside the statement (LSan off)");
        return a;
    }
};

// ---- execution ---------------------------------------------------------------------------------------------
namespace
{
    struct Ctx
    {
        const sim::Options &o;
        const Json &plan;
        sim::CaseResult &res;
        world::WorldPtr w;
        std::string planner;
        const planners::Info *info = nullptr;
        bool intermediateStatesParam = false;
        uint64_t h = 1469598103934665603ULL;
        std::set<std::string> outcomes;
        long judgedPaths = 0, judgedCosts = 0;
    };

    const sim::Options &g_dummyOptions()
    {
        static sim::Options o;
        return o;
    }
    // multilevel planners: the class names the configuration family too (levels, single / several goal states), so that a
    // recorded finding about one family does not cover another
    std::string mlContext(const Json &plan)
    {
        if (!plan.has("levels"))
            return "";
        bool multi = false;
        for (auto &q : plan["queries"].items())
            multi = multi || q["goal"].gets("type") == "states";
        return fmt(" levels=%ld goals=%s", (long)plan.geti("levels", 1), multi ? "several" : "one");
    }
    // curved spaces (Reeds-Shepp, Dubins): the class names the space, their geodesics are not unique
    std::string curvedContext(const Json &plan)
    {
        std::string sp = plan["world"].gets("space");
        return sp == "rs" || sp == "dubins" ? " space=" + sp : "";
    }
    std::string sfx(const Ctx &c)
    {
        return " planner=" + c.planner + mlContext(c.plan) + curvedContext(c.plan);
    }
}  // namespace
std::string PlanSim::mlContextOf(const Json &plan)
{
    return mlContext(plan) + curvedContext(plan);
}
namespace
{

    // C01 path oracle on one solution
    void judgePath(Ctx &c, const world::Query &q, const ob::PlannerSolution &sol, const std::string &when)
    {
        auto *p = dynamic_cast<og::PathGeometric *>(sol.path_.get());
        std::string P = c.o.prop;
        if (!p || p->getStateCount() == 0)
        {
            c.res.violate(P + ".empty-path" + sfx(c), when + ": reported solution path has no states");
            return;
        }
        const auto &v = p->getStates();
        c.judgedPaths++;
        bool startOk = false;
        for (auto &s : q.starts)
            if (c.w->si->equalStates(v[0], s.get()) && c.w->si->satisfiesBounds(s.get()) && c.w->valid(s.get()))
                startOk = true;
        if (!startOk)
        {
            c.res.violate(P + ".path-start-not-a-valid-start" + sfx(c),
                          when + ": first path state is not one of the valid, in-bounds start states");
            return;
        }
        double d = 0;
        bool sat = q.pdef->getGoal()->isSatisfied(v.back(), &d);
        if (!sol.approximate_ && !sat)
        {
            c.res.violate(P + ".exact-solution-misses-goal" + sfx(c),
                          when + fmt(": solution not flagged approximate but last state is %.6g from the goal", d));
            return;
        }
        if (sol.approximate_)
        {
            double scale = std::max(1.0, c.w->ss->getMaximumExtent());
            // (a lazily sampled goal grows while the planner runs, so the distance to it is not stationary: the
            // difference recorded with the solution cannot be recomputed afterwards)
            if (q.goalType != "lazy" && std::fabs(sol.difference_ - d) > 1e-9 * scale)
            {
                c.res.violate(P + ".approximate-difference-mismatch" + sfx(c),
                              when + fmt(": approximate solution reports difference %.9g, last state is %.9g from the goal "
                                         "(path has %zu states; its first state is %.9g from the goal)",
                                         sol.difference_, d, v.size(), [&] {
                                             double d0 = 0;
                                             q.pdef->getGoal()->isSatisfied(v.front(), &d0);
                                             return d0;
                                         }()));
                return;
            }
            c.outcomes.insert("approx");
        }
        else
            c.outcomes.insert("exact");
        // (C03: "never reports a half-built path as a solution" - a path whose motions were not all validated when the
        // termination condition fired is half-built; judged by the same dense clause at every enumerated k)
        if (P == "C01" || P == "C19" || P == "C03")
        {
            for (size_t i = 0; i < v.size(); i++)
                if (!c.w->si->satisfiesBounds(v[i]))
                {
                    c.res.violate(P + ".path-state-out-of-bounds" + sfx(c), when + fmt(": path state %zu of %zu violates the space bounds", i, v.size()));
                    return;
                }
            world::SegmentVerdict sv = world::denseCheck(*c.w, v);
            // (a vertex inside a sub-resolution obstacle is not by itself against the statement: sub-segmenting planners
            // such as PDST legitimately place vertices between resolution points; the stretch clause below and, for
            // whitelisted planners, the pairwise re-check - which validates every vertex - are what the statement asks)
            if (sv.vertexInvalid)
                c.res.probes["path-vertex-inside-sub-resolution-obstacle"]++;
            if (sv.worstRunSteps >= 2.0)
            {
                c.res.violate(P + ".invalid-stretch" + sfx(c),
                              when + fmt(": motion %zu of the path stays in invalid space for %.2f resolution steps (n=%u; "
                                         "checkMotion forward=%d reverse=%d)",
                                         sv.worstSegment, sv.worstRunSteps, sv.worstN,
                                         (int)c.w->si->checkMotion(v[sv.worstSegment], v[sv.worstSegment + 1]),
                                         (int)c.w->si->checkMotion(v[sv.worstSegment + 1], v[sv.worstSegment])));
                return;
            }
            if (sv.worstRunSteps > 0)
                c.res.probes["path-crosses-thin-obstacle-within-resolution"]++;
            // (not on curved spaces: the optimal Reeds-Shepp curve between two poses is not unique, so the curve that
            // interpolate(b, a) traces need not be the reverse of the validated interpolate(a, b) although the space
            // claims symmetric interpolation; planners that validate an edge once for both directions then fail the
            // re-check without having skipped anything. The dense clause above still applies there.)
            if (c.info->pairwise && !c.intermediateStatesParam && !c.w->curved)
            {
                for (size_t i = 0; i + 1 < v.size(); i++)
                    if (!c.w->si->checkMotion(v[i], v[i + 1]))
                    {
                        c.res.violate(P + ".pairwise-recheck-fails" + sfx(c),
                                      when + fmt(": checkMotion(state %zu, state %zu) of the reported path is false", i, i + 1));
                        return;
                    }
            }
        }
        for (auto *s : v)
            c.h = c.w->hashState(c.h, s);
    }

    // C04 cost clauses on one solution
    void judgeCost(Ctx &c, const world::Query &q, const ob::PlannerSolution &sol, const ob::OptimizationObjectivePtr &opt,
                   const std::string &when)
    {
        if (!sol.opt_ || !opt)
            return;
        auto *p = dynamic_cast<og::PathGeometric *>(sol.path_.get());
        if (!p || p->getStateCount() == 0)
            return;
        c.judgedCosts++;
        std::string P = "C04";
        double truec = p->cost(opt).value();
        double stored = sol.cost_.value();
        double tol = 1e-9 * std::max(1.0, std::fabs(truec));
        // "never better than the true cost": better is objective-relative
        ob::Cost trueCost(truec), storedCost(stored);
        bool minimizing = opt->isCostBetterThan(ob::Cost(0.0), ob::Cost(1.0));
        bool storedBetter = minimizing ? stored < truec - tol : stored > truec + tol;
        if (storedBetter && std::isfinite(truec))
        {
            c.res.violate(P + ".stored-cost-better-than-true-cost" + sfx(c),
                          when + fmt(": stored cost %.12g, recomputed cost of the path %.12g", stored, truec));
            return;
        }
        if (c.info->eagerCost && std::fabs(stored - truec) > tol && std::isfinite(truec))
        {
            c.res.violate(P + ".stored-cost-differs-from-true-cost" + sfx(c),
                          when + fmt(": stored cost %.12g, recomputed cost of the path %.12g", stored, truec));
            return;
        }
        if (std::fabs(stored - truec) > tol)
            c.res.probes["stored-cost-above-true-cost(deferred-propagation)"]++;
        // (judged on exact solutions: planners deliberately never mark an approximate solution, which does not reach
        // the goal, as meeting the objective - AIT*: "This solution is approximate and can not satisfy the objective")
        if (sol.approximate_ && !sol.optimized_)
            ;
        else if (sol.optimized_ != opt->isSatisfied(sol.cost_))
        {
            c.res.violate(P + ".optimized-flag-mismatch" + sfx(c),
                          when + fmt(": optimized flag %d but isSatisfied(stored cost %.9g) = %d", (int)sol.optimized_, stored,
                                     (int)opt->isSatisfied(sol.cost_)));
            return;
        }
        if (sol.optimized_)
            c.outcomes.insert("optimized");
        // admissible bound for path length: straight-line distance between the path's own end points minus nothing
        if (dynamic_cast<ob::PathLengthOptimizationObjective *>(opt.get()) && c.w->ss->isMetricSpace())
        {
            double best = HUGE_VAL;
            const auto &v = p->getStates();
            double thr = 0;
            if (auto *gr = dynamic_cast<ob::GoalRegion *>(q.pdef->getGoal().get()))
                thr = gr->getThreshold();
            if (q.goalType != "region")
            {
                for (auto &s : q.starts)
                    for (auto &gs : q.goalStates)
                        best = std::min(best, c.w->si->distance(s.get(), gs.get()) - thr);
                if (sol.approximate_)
                    best = std::min(best, c.w->si->distance(v.front(), v.back()));
            }
            else
                best = c.w->si->distance(v.front(), v.back());
            if (std::isfinite(best) && truec < best - 1e-9 * std::max(1.0, best))
            {
                c.res.violate(P + ".true-cost-below-admissible-bound" + sfx(c),
                              when + fmt(": path length %.12g is below the straight-line bound %.12g", truec, best));
                return;
            }
        }
        c.h = sim::hashDouble(c.h, stored);
    }

    // the order the statement gives: exact before approximate; approximate by smaller difference; then
    // objective-satisfying; then lower cost (or shorter when no objective is recorded)
    bool refBefore(const ob::PlannerSolution &a, const ob::PlannerSolution &b)
    {
        if (a.approximate_ != b.approximate_)
            return !a.approximate_;
        if (a.approximate_)
            return a.difference_ < b.difference_;
        if (a.optimized_ != b.optimized_)
            return a.optimized_;
        if (a.opt_)
            return a.opt_->isCostBetterThan(a.cost_, b.cost_);
        return a.length_ < b.length_;
    }
    void judgeOrder(Ctx &c, const world::Query &q, const std::string &when)
    {
        auto sols = q.pdef->getSolutions();
        bool mixed = false;
        for (auto &s : sols)
            if ((bool)s.opt_ != (bool)sols[0].opt_)
                mixed = true;
        if (mixed)
        {
            c.res.probes["solution-set-mixes-objective-and-no-objective(not judged)"]++;
            return;
        }
        for (size_t i = 0; i + 1 < sols.size(); i++)
            if (refBefore(sols[i + 1], sols[i]))
            {
                c.res.violate("C04.solutions-not-best-first" + sfx(c),
                              when + fmt(": solution %zu ranks after solution %zu but is better by the stated order", i + 1, i));
                return;
            }
        if (!sols.empty())
        {
            if (q.pdef->getSolutionPath() != sols[0].path_ || q.pdef->hasApproximateSolution() != sols[0].approximate_ ||
                q.pdef->hasOptimizedSolution() != sols[0].optimized_ ||
                (sols[0].approximate_ && q.pdef->getSolutionDifference() != sols[0].difference_))
                c.res.violate("C04.top-solution-accessors-disagree" + sfx(c),
                              when + ": getSolutionPath/hasApproximateSolution/hasOptimizedSolution/getSolutionDifference "
                                     "disagree with the first element of getSolutions()");
        }
    }
}  // namespace

namespace
{
    // maximising path-length-like objective for the solset cases (isCostBetterThan reversed)
    class MaxLength : public ob::PathLengthOptimizationObjective
    {
    public:
        using ob::PathLengthOptimizationObjective::PathLengthOptimizationObjective;
        bool isCostBetterThan(ob::Cost c1, ob::Cost c2) const override
        {
            return c1.value() > c2.value();
        }
    };
}  // namespace

sim::CaseResult PlanSim::runSolset(const sim::Options &, const Json &plan)
{
    sim::CaseResult res;
    Json wd = Json::object();
    wd["space"] = "rv";
    wd["dim"] = 2;
    wd["lo"] = 0.0;
    wd["hi"] = 100.0;
    {
        auto w = world::build(wd);
        auto pdef = std::make_shared<ob::ProblemDefinition>(w->si);
        ob::OptimizationObjectivePtr opt;
        if (plan.getb("with_objective"))
        {
            if (plan.getb("maximize"))
                opt = std::make_shared<MaxLength>(w->si);
            else
                opt = std::make_shared<ob::PathLengthOptimizationObjective>(w->si);
        }
        Ctx c{g_dummyOptions(), plan, res};
        c.planner = "solution-set";
        std::vector<ob::PlannerSolution> model;
        uint64_t h = 1469598103934665603ULL;
        long adds = 0, ties = 0;
        const auto &ops = plan["ops"].items();
        for (size_t oi = 0; oi < ops.size() && res.vclass.empty(); oi++)
        {
            const Json &op = ops[oi];
            if (op.gets("op") == "clearsolutions")
            {
                pdef->clearSolutionPaths();
                model.clear();
                if (pdef->getSolutionCount() != 0 || pdef->hasSolution())
                    res.violate("C04.clear-left-solutions planner=solution-set", fmt("op %zu: solutions remain after clearSolutionPaths()", oi));
                continue;
            }
            auto path = std::make_shared<og::PathGeometric>(w->si);
            ob::ScopedState<> a(w->ss), b(w->ss);
            a[0] = 0;
            a[1] = 0;
            b[0] = op.getd("length");
            b[1] = 0;
            path->append(a.get());
            path->append(b.get());
            ob::PlannerSolution sol(path);
            if (op.getb("approximate"))
                sol.setApproximate(op.getd("difference"));
            if (opt)
                sol.setOptimized(opt, ob::Cost(op.getd("cost")), op.getb("optimized"));
            sol.setPlannerName("sim");
            for (auto &m : model)
                if (!refBefore(m, sol) && !refBefore(sol, m))
                    ties++;
            pdef->addSolutionPath(sol);
            model.push_back(sol);
            adds++;
            auto sols = pdef->getSolutions();
            if (sols.size() != model.size())
            {
                res.violate("C04.solution-count-mismatch planner=solution-set", fmt("op %zu: getSolutions() has %zu entries after %zu adds", oi, sols.size(), model.size()));
                break;
            }
            // multiset preserved
            for (auto &m : model)
            {
                bool found = false;
                for (auto &s : sols)
                    if (s.path_ == m.path_ && s.approximate_ == m.approximate_ && s.difference_ == m.difference_ &&
                        s.optimized_ == m.optimized_ && s.cost_.value() == m.cost_.value())
                        found = true;
                if (!found)
                {
                    res.violate("C04.solution-lost-or-altered planner=solution-set", fmt("op %zu: an added solution is missing from getSolutions() or its fields changed", oi));
                    break;
                }
            }
            world::Query q;
            q.pdef = pdef;
            if (res.vclass.empty())
                judgeOrder(c, q, fmt("op %zu (add)", oi));
            for (auto &s : sols)
                h = sim::hashDouble(h, s.approximate_ ? -s.difference_ : (opt ? s.cost_.value() : s.length_));
        }
        res.trace = h;
        res.nontrivial = adds >= 3;
        res.sig = std::string("solset/") + (opt ? (plan.getb("maximize") ? "max" : "min") : "no-objective") + fmt("/n%ld", adds / 3) + (ties ? "/ties" : "");
        res.probes["solset.ties-under-the-stated-order"] += ties;
        res.probes["solset.adds"] += adds;
        Json info = Json::object();
        info["adds"] = Json(adds);
        res.info = info;
    }
    return res;
}

sim::CaseResult PlanSim::run(const sim::Options &o, const Json &plan)
{
    if (plan.gets("kind") == "none")
    {
        sim::CaseResult none;
        none.sig = "none";
        return none;
    }
    if (plan.gets("kind") == "solset")
        return runSolset(o, plan);
    if (plan.gets("kind") == "simplify")
        return c17::run(o, plan);
    if (o.prop == "C20" && !g_oneshot)
        return runDet(o, plan);
    sim::CaseResult res;
    Ctx c{o, plan, res};
    const std::string P = o.prop;
    c.planner = plan.gets("planner");
    c.info = planners::findGeometric(c.planner);
    if (!c.info)
    {
        res.inconclusive = true;
        return res;
    }
    ompl::RNG::setSeed((std::uint_fast32_t)plan.geti("ompl_seed", 1));
    {
        c.w = world::build(plan["world"]);
        std::vector<std::shared_ptr<world::Query>> qs;
        ob::OptimizationObjectivePtr opt;
        for (auto &qj : plan["queries"].items())
        {
            qs.push_back(world::makeQuery(c.w, qj));
            auto ob2 = makeObjective(c.w, plan["objective"]);
            if (ob2)
                qs.back()->pdef->setOptimizationObjective(ob2);
        }
        world::WorldPtr lowWorld;  // multilevel: the positional level (same obstacles), owned here, outlives the planner
        ob::PlannerPtr planner;
        if (c.info->multilevel && plan.geti("levels", 1) == 2)
        {
            Json ld = plan["world"];
            ld["space"] = "rv";
            ld["dim"] = plan["world"].gets("space") == "se3" ? 3L : (plan["world"].gets("space") == "se2" ? 2L : (long)plan["world"].geti("pdim", 2));
            ld["pdim"] = ld["dim"];
            lowWorld = world::build(ld);
            std::vector<ob::SpaceInformationPtr> siVec{lowWorld->si, c.w->si};
            planner = planners::makeMultilevel(c.planner, siVec);
            res.probes["multilevel-two-levels"]++;
        }
        else
            planner = planners::makeGeometric(c.planner, c.w->si);
        for (auto &kv : plan["params"].members())
        {
            planner->params().setParam(kv.first, kv.second.s());
            if (kv.first == "intermediate_states" && kv.second.s() == "1")
                c.intermediateStatesParam = true;
        }
        size_t cur = 0;
        planner->setProblemDefinition(qs[cur]->pdef);
        bool setupOk = true;
        try
        {
            planner->setup();
            planners::applyNearestNeighbors(c.planner, planner.get(), plan.gets("nn"));
        }
        catch (ompl::Exception &ex)
        {
            // a planner may refuse a configuration in setup() (documented Exception); nothing to judge then
            setupOk = false;
            res.info["setup_exception"] = ex.what();
            c.outcomes.insert("setup-refused");
        }
        const auto &ops = plan["ops"].items();
        long solves = 0, firedSolves = 0, firedAfterSolution = 0, validAtFire = 0;
        const long stepBudget = o.thorough() ? 20000000 : 4000000;  // validity calls per solve
        std::set<std::string> opKinds;
        bool freshQuery = true;  // no solve yet on the current query since it was (re)installed
        std::vector<const ob::State *> foreign;  // start/goal states of the previous query
        std::vector<std::shared_ptr<world::Query>> retired;  // replaced problem definitions stay alive until the planner is gone
        for (size_t oi = 0; setupOk && oi < ops.size() && res.vclass.empty(); oi++)
        {
            const Json &op = ops[oi];
            std::string k = op.gets("op");
            opKinds.insert(k);
            world::Query &q = *qs[cur];
            std::string when = fmt("op %zu (%s)", oi, k.c_str());
            if (k == "solve")
            {
                Ptc ptc;
                ptc.k = op.geti("k");
                ptc.validCalls = &c.w->validCalls;
                ptc.validAtFire = &validAtFire;
                ptc.cpuBudget = c.w->cpuBudget = P == "C20" ? 1e9 : (o.thorough() ? 15.0 : 4.0);  // C20 compares processes: only deterministic budgets
                auto before = q.pdef->getSolutions();
                ob::PlannerSolution topBefore(nullptr);
                bool had = q.pdef->getSolution(topBefore);
                ob::PlannerStatus st;
                const bool scheduled = plan.has("sched");
                ob::PlannerTerminationCondition ptcObj = ptc.make();
                int terminator = -1;
                if (scheduled)
                {
                    const Json &sj = plan["sched"];
                    sim::sched::Config cfg;
                    cfg.seed = (uint64_t)sj.geti("seed", 1) + oi;
                    cfg.policy = (int)sj.geti("policy", 0);
                    cfg.pctDepth = (int)sj.geti("pct_depth", 2);
                    cfg.pctHorizon = 20000;
                    cfg.quantum = sj.geti("quantum", 8);
                    cfg.costNs = sj.geti("cost_us", 10) * 1000;
                    cfg.costJitterNs = sj.geti("jitter_us", 0) * 1000;
                    cfg.starveThread = sj.has("starve_thread") ? (int)sj.geti("starve_thread") : -1;
                    cfg.starveYields = sj.geti("starve_yields", 0);
                    cfg.maxYields = o.thorough() ? 40000000 : 8000000;
                    sim::sched::onDeadlock = [&res, &c, P, when](const std::string &what) {
                        res.violate(P + ".deadlock" + sfx(c), when + ": " + what);
                        sim::finishCaseNow(res);
                    };
                    sim::sched::onBudget = [&res]() {
                        res.inconclusive = true;
                        res.probes["step-budget-exhausted"]++;
                        sim::finishCaseNow(res);
                    };
                    c.w->onValidityCall = [] { sim::sched::yield(); };
                    world::ledger().distYieldEvery = plan["sched"].geti("dist_yield_every", 0);
                    world::ledger().onDistanceYield = [] { sim::sched::yield(); };
                    if (world::ledger().distYieldEvery > 0)
                        res.faults["F4-yield-inside-nearest-neighbour-queries"]++;
                    ptc.bail = [&res, &c, &ptc, P, when, &validAtFire](bool budget) {
                        if (!budget)
                            res.violate(P + ".unbounded-return" + sfx(c), when + ": the termination condition was evaluated 10^4 more times after it became true");
                        else if (ptc.fired && c.w->validCalls.load() - validAtFire > 1000000)
                            res.violate(P + ".unbounded-return" + sfx(c), when + ": more than 10^6 validity checks after the termination condition became true");
                        else
                            res.inconclusive = true;
                        res.probes["step-budget-exhausted"] += budget;
                        sim::finishCaseNow(res);
                    };
                    c.w->onBudgetExhausted = [&ptc] { ptc.bail(true); };
                    world::ledger().onBudgetExhausted = [&ptc] { ptc.bail(true); };
                    sim::sched::start(cfg);
                    if (q.lazyGoal)
                        q.lazyGoal->startSampling();
                    if (sj.has("terminate_after_ms"))
                    {
                        long long ns = (long long)(sj.getd("terminate_after_ms") * 1e6);
                        terminator = sim::sched::spawn([ns, ptcObj] {
                            struct timespec ts = {(time_t)(ns / 1000000000LL), (long)(ns % 1000000000LL)};
                            nanosleep(&ts, nullptr);
                            ptcObj.terminate();
                        });
                        res.faults["F2-terminate-from-another-thread"]++;
                    }
                }
                c.w->validBudget = c.w->validCalls.load() + stepBudget;
                world::ledger().cpuBudget = c.w->cpuBudget;
                world::ledger().armed = true;
                // reference comparison ("behaves like a first one"): this solve draws all its randomness from one harness stream
                // (only when the problem definition holds no solution yet - the never-used planner's is empty too; a planner
                // whose clear() also resets its setup flag is set up again first, as the never-used one is, so that both solves
                // start from a set-up planner)
                bool refRun = P == "C03" && op.has("ref_stream") && !scheduled && freshQuery && before.empty();
                if (refRun && !planner->isSetup())
                {
                    try
                    {
                        planner->setup();
                    }
                    catch (ompl::Exception &)
                    {
                        // the planner refuses this configuration (BIT* on a space its informed sampler does not support), as
                        // its solve() would have by calling setup() itself: the history ends here, like any refused solve
                        // (calling solve() on a planner whose setup() threw is not something the statement quantifies over)
                        refRun = false;
                        res.probes["solve-refused-configuration(ompl::Exception)"]++;
                        c.outcomes.insert("refused");
                        break;
                    }
                }
                long drawsA = 0;
                struct DrawsGuard
                {
                    ~DrawsGuard()
                    {
                        rngfault::allDrawsOff();
                    }
                } drawsGuard;
                if (refRun)
                    rngfault::allDrawsOn((uint64_t)op.geti("ref_stream"));
                try
                {
                    st = planner->solve(ptcObj);
                    drawsA = rngfault::allDrawsOff();
                    c.w->validBudget = -1;
                    world::ledger().armed = false;
                    if (scheduled)
                    {
                        if (terminator >= 0)
                        {
                            ptcObj.terminate();  // let the terminator finish its sleep and go
                            sim::sched::join(terminator);
                        }
                        if (q.lazyGoal)
                            q.lazyGoal->stopSampling();
                        // every thread the planner started must be gone now: stop() lets stragglers run; a thread that can
                        // never finish is reported as a deadlock
                        sim::sched::Stats sst = sim::sched::stop();
                        c.w->onValidityCall = nullptr;
                        world::ledger().distYieldEvery = 0;
                        c.w->onBudgetExhausted = nullptr;
                        world::ledger().onBudgetExhausted = nullptr;
                        res.simSeconds += sst.simSeconds;
                        res.interleavings.push_back(sst.scheduleHash);
                        res.faults["F4-scheduler-switches"] += sst.switches;
                        if (sst.starved)
                            res.faults["F4-bounded-starvation"] += sst.starved;
                        res.probes["simulated-threads"] += sst.threads;
                        res.probes["mutex-blocks"] += sst.mutexBlocks;
                        c.h = sim::hashU64(c.h, sst.scheduleHash);
                    }
                }
                catch (StopSolve &)
                {
                    res.violate(P + ".unbounded-return" + sfx(c),
                                when + ": solve() evaluated the termination condition 10^4 more times after it became true");
                    res.trace = c.h;
                    sim::finishCaseNow(res);  // the planner was abandoned mid-solve: no teardown, no exit accounting
                }
                catch (world::BudgetExhausted &)
                {
                    if (ptc.fired && c.w->validCalls.load() - validAtFire > 1000000)
                        res.violate(P + ".unbounded-return" + sfx(c),
                                    when + ": more than 10^6 validity checks after the termination condition became true");
                    else
                        res.inconclusive = true;
                    res.probes["step-budget-exhausted"]++;
                    res.trace = c.h;
                    sim::finishCaseNow(res);
                }
                catch (ompl::Exception &ex)
                {
                    c.w->validBudget = -1;
                    world::ledger().armed = false;
                    if (scheduled)
                    {
                        // worker threads may still be alive: nothing more can be judged in this process
                        res.probes["solve-refused-configuration(ompl::Exception)"]++;
                        res.info["solve_exception"] = ex.what();
                        res.inconclusive = true;
                        sim::finishCaseNow(res);
                    }
                    std::string msg = ex.what();
                    // documented refusals of a configuration: nothing was promised for this input, the case ends
                    // unjudged. Any other exception escaping solve() on a valid query is a violation.
                    static const char *refusals[] = {
                        "only supports goals that can be cast to a sampleable goal region",
                        "only supports RealVector, SE2, SE3, Dubins, and ReedsShepp state spaces",
                        "informed sampler",
                        "Informed sampling",
                        "The cost threshold",
                        "does not support",
                        "not supported",
                        "Unknown type of goal",
                        "requires",
                        "start and goal",
                    };
                    bool refusal = false;
                    for (auto *r : refusals)
                        if (msg.find(r) != std::string::npos)
                            refusal = true;
                    res.info["solve_exception"] = msg;
                    if (!refusal && (P == "C01" || P == "C03"))
                    {
                        std::string key;
                        for (char ch : msg.substr(0, 60))
                            key += (isalnum((unsigned char)ch) ? ch : '_');
                        res.violate(P + ".exception-from-solve planner=" + c.planner + " what=" + key + mlContext(c.plan), when + ": ompl::Exception: " + msg);
                        break;
                    }
                    res.probes["solve-refused-configuration(ompl::Exception)"]++;
                    c.outcomes.insert("refused");
                    break;
                }
                solves++;
                if (ptc.fired)
                {
                    firedSolves++;
                    res.faults["F1-cancel-at-kth-ptc-evaluation"]++;
                    if (had)
                        firedAfterSolution++;
                }
                c.h = sim::hashU64(c.h, (uint64_t)(int)(ob::PlannerStatus::StatusType)st);
                c.h = sim::hashU64(c.h, (uint64_t)ptc.evals);
                c.h = sim::hashU64(c.h, (uint64_t)c.w->validCalls.load());
                c.outcomes.insert(st.asString());
                auto after = q.pdef->getSolutions();
                std::vector<ob::PlannerSolution> added;
                for (auto &s : after)
                {
                    bool old = false;
                    for (auto &b : before)
                        if (b.path_ == s.path_)
                            old = true;
                    if (!old)
                        added.push_back(s);
                }
                bool isSol = (bool)st;
                auto stt = (ob::PlannerStatus::StatusType)st;
                // status truth (C01: solution statuses; C03: what the pdef now holds)
                if (P == "C01" || P == "C03" || P == "C19")
                {
                    bool anyExact = false, anyApprox = false;
                    for (auto &s : after)
                        (s.approximate_ ? anyApprox : anyExact) = true;
                    if (isSol && after.empty())
                        res.violate(P + ".solution-status-without-path" + sfx(c),
                                    when + ": status " + st.asString() + " but the problem definition holds no solution");
                    else if (stt == ob::PlannerStatus::EXACT_SOLUTION && !anyExact)
                        res.violate(P + ".status-exact-without-exact-solution" + sfx(c),
                                    when + ": status Exact solution but the problem definition holds no exact solution");
                    else if (stt == ob::PlannerStatus::APPROXIMATE_SOLUTION && !anyApprox)
                        res.violate(P + ".status-approximate-without-approximate-solution" + sfx(c),
                                    when + ": status Approximate solution but the problem definition holds no approximate one");
                    else if (!isSol && !added.empty())
                        res.violate(P + ".non-solution-status-added-path" + sfx(c),
                                    when + ": status " + st.asString() + " but a solution path was added");
                    else if (stt == ob::PlannerStatus::INVALID_START && q.anyValidStart && P == "C03")
                        res.violate(P + ".status-invalid-start-with-valid-start" + sfx(c),
                                    when + ": status Invalid start although a valid in-bounds start state was given");
                    if (stt == ob::PlannerStatus::INVALID_START)
                        res.probes["status-invalid-start"]++;
                }
                if (!res.vclass.empty())
                    break;
                if (P == "C01" || P == "C03" || P == "C19")
                    for (auto &s : added)
                    {
                        judgePath(c, q, s, when);
                        if (!res.vclass.empty())
                            break;
                    }
                if (P == "C03" && res.vclass.empty())
                {
                    // resume monotonicity under the pdef's own ranking
                    ob::PlannerSolution topAfter(nullptr);
                    bool has = q.pdef->getSolution(topAfter);
                    if (had && !has)
                        res.violate(P + ".resume-lost-solution" + sfx(c), when + ": the problem definition held a solution before this solve() and holds none now");
                    else if (had && has && topBefore < topAfter)
                        res.violate(P + ".resume-worsened-top-solution" + sfx(c), when + ": the best solution after a continued solve() ranks worse than before");
                    // new-query isolation
                    if (res.vclass.empty() && !foreign.empty())
                        for (auto &s : added)
                        {
                            auto *pg = dynamic_cast<og::PathGeometric *>(s.path_.get());
                            if (!pg)
                                continue;
                            for (auto *x : pg->getStates())
                                for (auto *f : foreign)
                                    if (c.w->si->equalStates(x, f))
                                    {
                                        res.violate(P + ".state-of-previous-query-in-path" + sfx(c),
                                                    when + ": a path reported for the new query contains a start/goal state of the previous query");
                                        goto doneIso;
                                    }
                        }
                doneIso:;
                    if (freshQuery && ptc.fired)
                        res.probes["cancelled-first-solve-of-a-query"]++;
                    if (refRun && res.vclass.empty())
                    {
                        // a never-used planner of the same configuration, the same query, the same k, the same random stream
                        auto refQ = world::makeQuery(c.w, plan["queries"].at(cur));
                        if (auto ob2 = makeObjective(c.w, plan["objective"]))
                            refQ->pdef->setOptimizationObjective(ob2);
                        ob::PlannerPtr ref = planners::makeGeometric(c.planner, c.w->si);
                        for (auto &kv : plan["params"].members())
                            ref->params().setParam(kv.first, kv.second.s());
                        ref->setProblemDefinition(refQ->pdef);
                        ob::PlannerStatus rs;
                        Ptc rp;
                        rp.k = ptc.k;
                        rp.cpuBudget = c.w->cpuBudget;
                        long drawsB = 0;
                        bool refOk = true;
                        try
                        {
                            ref->setup();
                            planners::applyNearestNeighbors(c.planner, ref.get(), plan.gets("nn"));
                            c.w->validBudget = c.w->validCalls.load() + stepBudget;
                            world::ledger().armed = true;
                            rngfault::allDrawsOn((uint64_t)op.geti("ref_stream"));
                            rs = ref->solve(rp.make());
                            drawsB = rngfault::allDrawsOff();
                        }
                        catch (StopSolve &)
                        {
                            refOk = false;
                        }
                        catch (world::BudgetExhausted &)
                        {
                            refOk = false;
                        }
                        catch (ompl::Exception &)
                        {
                            refOk = false;
                        }
                        rngfault::allDrawsOff();
                        c.w->validBudget = -1;
                        world::ledger().armed = false;
                        if (!refOk)
                        {
                            // (the reference run was abandoned mid-solve: its planner cannot be torn down safely)
                            res.inconclusive = true;
                            res.probes["reference-first-solve-abandoned"]++;
                            res.trace = c.h;
                            sim::finishCaseNow(res);
                        }
                        res.probes["solve-after-clear-compared-with-a-first-solve"]++;
                        auto refSols = refQ->pdef->getSolutions();
                        std::string diff;
                        if ((ob::PlannerStatus::StatusType)rs != stt)
                            diff += " status '" + st.asString() + "' vs '" + rs.asString() + "'";
                        if (rp.evals != ptc.evals)
                            diff += fmt(" termination-condition evaluations %ld vs %ld", ptc.evals, rp.evals);
                        if (drawsA != drawsB)
                            diff += fmt(" random draws consumed %ld vs %ld", drawsA, drawsB);
                        if (refSols.size() != added.size())
                            diff += fmt(" solutions added %zu vs %zu", added.size(), refSols.size());
                        else if (!added.empty())
                        {
                            auto *pa = dynamic_cast<og::PathGeometric *>(after[0].path_.get());
                            auto *pb = dynamic_cast<og::PathGeometric *>(refSols[0].path_.get());
                            if (pa && pb)
                            {
                                if (pa->getStateCount() != pb->getStateCount())
                                    diff += fmt(" best path has %zu vs %zu states", pa->getStateCount(), pb->getStateCount());
                                else
                                    for (size_t si2 = 0; si2 < pa->getStateCount(); si2++)
                                        if (!c.w->si->equalStates(pa->getState((unsigned)si2), pb->getState((unsigned)si2)))
                                        {
                                            diff += fmt(" best paths differ from state %zu on", si2);
                                            break;
                                        }
                            }
                            if (after[0].approximate_ != refSols[0].approximate_)
                                diff += " approximate flag differs";
                        }
                        if (!diff.empty())
                            res.violate(P + ".solve-after-clear-unlike-a-first-solve" + sfx(c),
                                        when + ": after clear() and a new problem definition, solve() differs from the first solve() of a never-used planner given the "
                                               "same query, the same k and the same random stream (cleared vs never used):" + diff);
                        refSols.clear();
                        ref.reset();
                        refQ.reset();
                    }
                }
                if (P == "C04" && res.vclass.empty())
                {
                    auto opt = q.pdef->getOptimizationObjective();
                    for (auto &s : after)
                    {
                        judgeCost(c, q, s, opt, when);
                        if (!res.vclass.empty())
                            break;
                    }
                    if (res.vclass.empty())
                        judgeOrder(c, q, when);
                    // best stored cost never gets worse across continued solves
                    ob::PlannerSolution topAfter(nullptr);
                    bool has = q.pdef->getSolution(topAfter);
                    if (res.vclass.empty() && had && has && topBefore.opt_ && topAfter.opt_ && !topBefore.approximate_ &&
                        !topAfter.approximate_ && topBefore.opt_->isCostBetterThan(topBefore.cost_, topAfter.cost_) &&
                        topBefore.optimized_ == topAfter.optimized_)
                        res.violate("C04.best-cost-worsened" + sfx(c),
                                    when + fmt(": best stored cost went from %.12g to %.12g", topBefore.cost_.value(), topAfter.cost_.value()));
                }
                freshQuery = false;
            }
            else if (k == "getdata")
            {
                ob::PlannerData d(c.w->si);
                planner->getPlannerData(d);
                c.h = sim::hashU64(c.h, d.numVertices());
                res.faults["F10-getPlannerData"]++;
            }
            else if (k == "clear" || k == "newquery")
            {
                res.faults[k == "clear" ? "F10-clear" : "F10-new-problem-definition"]++;
                std::string how = op.gets("how", "clear");
                size_t next = k == "newquery" ? (size_t)op.geti("query") % qs.size() : cur;
                if (k == "newquery" && P == "C03" && oi + 1 < ops.size() && ops[oi + 1].has("ref_stream"))
                {
                    // the solve that follows is compared with a never-used planner's on a never-used problem definition:
                    // goal objects carry state of their own (GoalStates cycles through its states), so this planner gets a
                    // never-used problem definition of the same query as well
                    retired.push_back(qs[next]);
                    qs[next] = world::makeQuery(c.w, plan["queries"].at(next));
                    if (auto ob2 = makeObjective(c.w, plan["objective"]))
                        qs[next]->pdef->setOptimizationObjective(ob2);
                }
                if (how == "set-then-clear")
                {
                    planner->setProblemDefinition(qs[next]->pdef);
                    planner->clear();
                }
                else if (how == "clearquery-then-set")
                {
                    planner->clearQuery();
                    planner->setProblemDefinition(qs[next]->pdef);
                }
                else if (how == "set-only")
                {
                    planner->setProblemDefinition(qs[next]->pdef);
                    res.probes["bare-setProblemDefinition(roadmap-planners)"]++;
                }
                else
                {
                    planner->clear();
                    if (k == "newquery")
                        planner->setProblemDefinition(qs[next]->pdef);
                }
                if (how != "clearquery-then-set" && how != "set-only")
                {
                    ob::PlannerData d(c.w->si);
                    planner->getPlannerData(d);
                    if (d.numVertices() > 0)
                        res.probes["planner-data-not-empty-right-after-clear"]++;
                }
                foreign.clear();
                // (clearQuery() keeps the roadmap by design - "should retain all datastructures generated from previous
                // queries that can be used to help solve the next query" - so the old end points may legitimately be
                // vertices of later paths; the never-returns-states-of-the-previous-query clause is about clear())
                if (k == "newquery" && next != cur && how != "clearquery-then-set" && how != "set-only")
                {
                    // end points of the query being left, unless the new query shares them
                    auto &oldq = *qs[cur];
                    auto &newq = *qs[next];
                    auto shared = [&](const ob::State *s) {
                        for (auto &x : newq.starts)
                            if (c.w->si->equalStates(x.get(), s))
                                return true;
                        for (auto &x : newq.goalStates)
                            if (c.w->si->equalStates(x.get(), s))
                                return true;
                        return false;
                    };
                    for (auto &s : oldq.starts)
                        if (!shared(s.get()))
                            foreign.push_back(s.get());
                    for (auto &s : oldq.goalStates)
                        if (!shared(s.get()))
                            foreign.push_back(s.get());
                    qs[next]->pdef->clearSolutionPaths();
                }
                if (how == "set-only" && next != cur)
                    qs[next]->pdef->clearSolutionPaths();
                cur = next;
                freshQuery = true;
            }
            else if (k == "clearsolutions")
            {
                q.pdef->clearSolutionPaths();
                res.faults["F10-clearSolutionPaths"]++;
            }
            else if (k == "setup")
            {
                planner->setup();
            }
        }
        // signature / evidence
        std::string oc;
        for (auto &s : c.outcomes)
            oc += (oc.empty() ? "" : "+") + s;
        std::string kinds;
        for (auto &s : opKinds)
            kinds += (kinds.empty() ? "" : "+") + s;
        std::string space = plan["world"].gets("space");
        std::string gt = plan["queries"].at(0)["goal"].gets("type");
        res.sig = c.planner + "/" + space + "/" + gt + "/" + oc;
        if (P == "C19")
            res.sig += fmt("/p%ld", (long)plan["sched"].geti("policy")) + (plan["sched"].has("terminate_after_ms") ? "/ext-terminate" : "") + (plan["sched"].has("starve_thread") ? "/starve" : "");
        if (P == "C03")
            res.sig += "/" + kinds + (firedAfterSolution ? "/cancel-after-solution" : (firedSolves ? "/cancel-before-solution" : ""));
        if (P == "C04")
            res.sig += "/" + plan["objective"].gets("type") + fmt("/solves%ld", solves);
        if (P == "C01")
            res.nontrivial = c.judgedPaths > 0;
        else if (P == "C19")
            res.nontrivial = res.probes["simulated-threads"] > solves;  // the planner really ran extra threads
        else if (P == "C03")
            res.nontrivial = firedSolves > 0 && ops.size() >= 2;
        else
            res.nontrivial = c.judgedCosts > 0;
        res.probes["solution-paths-judged"] += c.judgedPaths;
        res.probes["solution-costs-judged"] += c.judgedCosts;
        res.probes["cancel-landed-after-a-solution-existed"] += firedAfterSolution;
        Json info = Json::object();
        info["outcomes"] = oc;
        info["solves"] = Json(solves);
        info["validity_calls"] = Json(c.w->validCalls.load());
        info["paths_judged"] = Json(c.judgedPaths);
        if (res.info.has("setup_exception"))
            info["setup_exception"] = res.info["setup_exception"];
        if (res.info.has("solve_exception"))
            info["solve_exception"] = res.info["solve_exception"];
        res.info = info;
        c.h = sim::hashU64(c.h, (uint64_t)c.w->validCalls.load());
        // teardown in the order an application would: planner, queries, world
        planner.reset();
        qs.clear();
    }
    c.w.reset();
    res.trace = c.h;
    return res;
}

// ---- C20: the same case in separately started processes under perturbations that must not matter (F9) --------------
namespace
{
    int oneshot(const char *planFile)
    {
        g_oneshot = true;
        return detrun::oneshot(planFile, [](const Json &plan) {
            PlanSim e;
            sim::Options o;
            o.prop = "C20";
            return e.run(o, plan);
        });
    }
}  // namespace

sim::CaseResult PlanSim::runDet(const sim::Options &o, const Json &plan)
{
    return detrun::runDet(o, plan, "plansim", plan.gets("planner") + "/" + plan["world"].gets("space") + "/");
}

int main(int argc, char **argv)
{
    if (argc >= 3 && std::string(argv[1]) == "--oneshot")
        return oneshot(argv[2]);
    PlanSim e;
    return sim::engineMain(e, argc, argv);
}
