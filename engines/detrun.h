// C20 machinery shared by the planner-level engines: one case is executed in three SEPARATELY STARTED processes
// (exec of the engine binary with --oneshot, so the seed is set before any RNG exists) under perturbations that must
// not matter (F9: ASLR on/off, heap pre-padding, environment size, unrelated earlier work), and what they print must be
// identical.
#pragma once
#include "sim/runner.h"

#include <ompl/base/ProblemDefinition.h>
#include <ompl/base/SpaceInformation.h>
#include <ompl/base/spaces/SE3StateSpace.h>
#include <ompl/util/Console.h>
#include <ompl/util/RandomNumbers.h>

#include <fcntl.h>
#include <functional>
#include <sys/personality.h>
#include <sys/wait.h>
#include <unistd.h>

namespace detrun
{
    using sim::Json;
    using sim::fmt;
    namespace ob = ompl::base;

    // one separately started run: perturb the process, run the plan in-process, print what must be reproducible.
    // `runPlan` must execute the plan as the engine's run() does for C20 and fill trace + info{outcomes, validity_calls, paths_judged}
    inline int oneshot(const char *planFile, const std::function<sim::CaseResult(const Json &)> &runPlan)
    {
        ompl::msg::noOutputHandler();
        Json plan = Json::parseFile(planFile);
        long pad = getenv("VERIF_PERTURB_PAD") ? atol(getenv("VERIF_PERTURB_PAD")) : 0;
        bool work = getenv("VERIF_PERTURB_WORK") && atoi(getenv("VERIF_PERTURB_WORK"));
        // heap pre-padding: a seed-dependent number of allocations of seed-dependent sizes, kept alive
        std::vector<void *> keepAlive;
        sim::Rng g((uint64_t)pad * 7919 + 13);
        for (long i = 0; i < pad; i++)
            keepAlive.push_back(malloc((size_t)g.range(1, 5000)));
        if (work)
        {
            // unrelated earlier work in the process that creates no RNG: spaces, states, a problem definition
            for (int i = 0; i < 5; i++)
            {
                auto sp = std::make_shared<ob::SE3StateSpace>();
                ob::RealVectorBounds b(3);
                b.setLow(-1);
                b.setHigh(1);
                sp->setBounds(b);
                auto si = std::make_shared<ob::SpaceInformation>(sp);
                std::vector<ob::State *> st;
                for (int k = 0; k < 50 + i * 13; k++)
                    st.push_back(sp->allocState());
                auto pd = std::make_shared<ob::ProblemDefinition>(si);
                for (size_t k = 0; k < st.size(); k += 2)
                    sp->freeState(st[k]);
                if (i % 2 == 0)
                    for (size_t k = 1; k < st.size(); k += 2)
                        sp->freeState(st[k]);
            }
        }
        sim::CaseResult r = runPlan(plan);
        // the i-th generator created after the run depends only on the seed and on i
        uint64_t h = r.trace;
        for (int i = 0; i < 3; i++)
        {
            ompl::RNG rng;
            for (int k = 0; k < 16; k++)
                h = sim::hashDouble(h, rng.uniform01());
            h = sim::hashDouble(h, rng.gaussian01());
        }
        printf("ONESHOT trace=%016llx run=%016llx outcomes=%s validity=%lld paths=%lld\n", (unsigned long long)h, (unsigned long long)r.trace,
               r.info.gets("outcomes").c_str(), (long long)r.info.geti("validity_calls"), (long long)r.info.geti("paths_judged"));
        fflush(stdout);
        _exit(0);
    }

    // the parent side: three processes, compare
    inline sim::CaseResult runDet(const sim::Options &o, const Json &plan, const char *exeName, const std::string &sigPrefix)
    {
        sim::CaseResult res;
        std::string planner = plan.gets("planner");
        std::string file = o.tmpDir + fmt("/c20-%d.json", (int)getpid());
        plan.writeFile(file, -1);
        sim::Rng g((uint64_t)plan.geti("perturb_seed", 1));
        struct Pert
        {
            bool aslr;
            long pad;
            bool work;
            long envBytes;
        };
        std::vector<Pert> perts = {{false, 0, false, 0},
                                   {true, (long)g.range(1, 900), false, (long)g.range(0, 6000)},
                                   {true, (long)g.range(1, 3000), true, (long)g.range(0, 20000)}};
        std::vector<std::string> outs;
        for (auto &p : perts)
        {
            int pfd[2];
            if (pipe(pfd) != 0)
            {
                res.inconclusive = true;
                return res;
            }
            pid_t c = fork();
            if (c == 0)
            {
                close(pfd[0]);
                dup2(pfd[1], 1);
                int dn = open("/dev/null", O_WRONLY);
                dup2(dn, 2);
                int pers = personality(0xffffffff);
                if (pers != -1)
                    personality(p.aslr ? (pers & ~ADDR_NO_RANDOMIZE) : (pers | ADDR_NO_RANDOMIZE));
                setenv("VERIF_PERTURB_PAD", fmt("%ld", p.pad).c_str(), 1);
                setenv("VERIF_PERTURB_WORK", p.work ? "1" : "0", 1);
                if (p.envBytes > 0)
                    setenv("VERIF_PERTURB_ENV", std::string((size_t)p.envBytes, 'x').c_str(), 1);
                setenv("VERIF_KEEP_ASLR", "1", 1);
                execl("/proc/self/exe", exeName, "--oneshot", file.c_str(), (char *)nullptr);
                _exit(127);
            }
            close(pfd[1]);
            std::string out;
            char buf[4096];
            ssize_t n;
            while ((n = read(pfd[0], buf, sizeof buf)) > 0)
                out.append(buf, (size_t)n);
            close(pfd[0]);
            int st = 0;
            waitpid(c, &st, 0);
            size_t p0 = out.find("ONESHOT ");
            if (!(WIFEXITED(st) && WEXITSTATUS(st) == 0) || p0 == std::string::npos)
            {
                // the run itself died / was abandoned (budget): crashes are C03's business, nothing to compare here
                res.inconclusive = true;
                unlink(file.c_str());
                return res;
            }
            outs.push_back(out.substr(p0, out.find('\n', p0) - p0));
            res.faults[p.aslr ? "F9-aslr-on" : "F9-aslr-off"]++;
            if (p.pad)
                res.faults["F9-heap-pre-padding"]++;
            if (p.work)
                res.faults["F9-earlier-work-in-process"]++;
            if (p.envBytes)
                res.faults["F9-environment-size"]++;
        }
        unlink(file.c_str());
        for (size_t i = 1; i < outs.size(); i++)
            if (outs[i] != outs[0])
                res.violate("C20.run-differs-across-processes planner=" + planner,
                            fmt("process 0 (ASLR off, no padding): %s | process %zu (ASLR on, %ld pre-allocations%s): %s", outs[0].c_str(), i, perts[i].pad,
                                perts[i].work ? ", earlier unrelated work" : "", outs[i].c_str()));
        // a generator given a local seed reproduces its stream after arbitrary use
        {
            ompl::RNG a;
            // (any number of earlier draws: std::normal_distribution keeps a second value cached after an odd number)
            for (long k = 0, n = (long)g.range(0, 9); k < n; k++)
                a.gaussian01();
            for (long k = 0, n = (long)g.range(0, 9); k < n; k++)
                a.uniform01();
            double q[4];
            a.quaternion(q);
            std::vector<double> v(3);
            a.uniformNormalVector(v);
            a.uniformInBall(1.0, v);
            std::uint_fast32_t sd = (std::uint_fast32_t)g.range(1, 2000000000);
            a.setLocalSeed(sd);
            ompl::RNG b(sd);
            bool same = true;
            for (int k = 0; k < 40 && same; k++)
            {
                same = a.uniform01() == b.uniform01() && a.gaussian01() == b.gaussian01() && a.uniformInt(0, 1000) == b.uniformInt(0, 1000);
                if (k % 8 == 0)
                {
                    std::vector<double> va(4), vb(4);
                    a.uniformNormalVector(va);
                    b.uniformNormalVector(vb);
                    same = same && va == vb;
                }
            }
            if (!same)
                res.violate("C20.reseeded-generator-stream-differs", fmt("RNG::setLocalSeed(%u) after use does not reproduce the stream of RNG(%u)", (unsigned)sd, (unsigned)sd));
        }
        // (a run that differs between processes has, by its nature, no reproducible trace: the gate then compares the class)
        res.trace = res.vclass.empty() ? sim::fnv1a(outs[0]) : sim::fnv1a(res.vclass);
        res.nontrivial = outs[0].find("validity=0 ") == std::string::npos;  // the planner really ran in all three processes
        res.sig = sigPrefix + outs[0].substr(outs[0].find("outcomes="), 40);
        Json info = Json::object();
        info["processes"] = Json((long)outs.size());
        info["first"] = outs[0];
        res.info = info;
        return res;
    }
}  // namespace detrun
