// ctrlsim: whole real control-based planners on generated systems (C02).
// One forked child per case. The user-side code a planner sees - state propagator, validity, goal, decomposition,
// projection - is the harness's; the planners, control space, control samplers, directed control samplers,
// SpaceInformation::propagateWhileValid and PathControl are real. Faults: cancellation at the k-th evaluation of the
// termination condition (F1), extreme-draw bursts on the RNG seam (F5, hook H1), propagators that run into obstacles
// and out of the bounds (how propagateWhileValid is exercised), resumed solves.
#include "sim/runner.h"
#include "engines/world.h"
#include "engines/rng_fault.h"
#include "engines/detrun.h"

#include <ompl/control/PathControl.h>
#include <ompl/control/PlannerData.h>
#include <ompl/control/SimpleDirectedControlSampler.h>
#include <ompl/control/SpaceInformation.h>
#include <ompl/control/StatePropagator.h>
#include <ompl/control/planners/est/EST.h>
#include <ompl/control/planners/kpiece/KPIECE1.h>
#include <ompl/control/planners/pdst/PDST.h>
#include <ompl/control/planners/rrt/RRT.h>
#include <ompl/control/planners/sst/SST.h>
#include <ompl/control/planners/syclop/GridDecomposition.h>
#include <ompl/control/planners/syclop/SyclopEST.h>
#include <ompl/control/planners/syclop/SyclopRRT.h>
#include <ompl/control/spaces/RealVectorControlSpace.h>
#include <ompl/control/spaces/DiscreteControlSpace.h>
#include <ompl/util/Console.h>
#include <ompl/util/Exception.h>

#include <cmath>
#include <set>

using sim::Json;
using sim::fmt;
namespace ob = ompl::base;
namespace oc = ompl::control;

namespace
{
    bool g_oneshot = false;  // this process is one of the separately started runs of a C20 case
    const char *PLANNERS[] = {"RRT", "RRTi", "SST", "EST", "KPIECE1", "PDST", "SyclopRRT", "SyclopEST"};

    // ---- systems: closed-form one-step maps on raw coordinates ----------------------------------------------------
    enum Sys
    {
        CAR,       // SE(2): (v, phi)    x += v cos th dt, y += v sin th dt, th += v tan(phi)/len dt
        UNICYCLE,  // SE(2): (v, omega)
        DINT,      // R^4 (x, y, vx, vy): (ax, ay)
        POINT,     // R^n: u (velocity), optionally steerable
        DTURN      // SE(2), ONE DISCRETE control u in {lo..hi}: constant speed, th += u * turn rate * dt
    };
    Sys sysOf(const std::string &s)
    {
        return s == "car" ? CAR : (s == "unicycle" ? UNICYCLE : (s == "dint" ? DINT : (s == "dturn" ? DTURN : POINT)));
    }
    double wrapAngle(double v)
    {
        v = std::fmod(v, 2.0 * M_PI);
        if (v < -M_PI)
            v += 2.0 * M_PI;
        else if (v >= M_PI)
            v -= 2.0 * M_PI;
        return v;
    }
    struct System
    {
        Sys sys = POINT;
        int n = 2;       // state reals
        int m = 2;       // controls
        double len = 1;  // car length
        double speed = 1, turn = 1;  // DTURN
        bool discrete = false;       // the control space is a DiscreteControlSpace (one integer control)
        // one step on raw coordinates; x and out may alias
        void step(const double *x, const double *u, double dt, double *out) const
        {
            if (sys == CAR)
            {
                double th = x[2];
                double nx = x[0] + u[0] * std::cos(th) * dt, ny = x[1] + u[0] * std::sin(th) * dt;
                out[2] = wrapAngle(th + u[0] * std::tan(u[1]) / len * dt);
                out[0] = nx;
                out[1] = ny;
            }
            else if (sys == UNICYCLE)
            {
                double th = x[2];
                double nx = x[0] + u[0] * std::cos(th) * dt, ny = x[1] + u[0] * std::sin(th) * dt;
                out[2] = wrapAngle(th + u[1] * dt);
                out[0] = nx;
                out[1] = ny;
            }
            else if (sys == DTURN)
            {
                double th = x[2];
                double nx = x[0] + speed * std::cos(th) * dt, ny = x[1] + speed * std::sin(th) * dt;
                out[2] = wrapAngle(th + u[0] * turn * dt);
                out[0] = nx;
                out[1] = ny;
            }
            else if (sys == DINT)
            {
                double nx = x[0] + x[2] * dt, ny = x[1] + x[3] * dt;
                out[2] = x[2] + u[0] * dt;
                out[3] = x[3] + u[1] * dt;
                out[0] = nx;
                out[1] = ny;
            }
            else
                for (int i = 0; i < n; i++)
                    out[i] = x[i] + u[i] * dt;
        }
    };
    // the control as reals, whatever the control space (real vector, or one discrete value)
    const double *ctrlValues(const System &sys, const oc::Control *c, double *buf)
    {
        if (!sys.discrete)
            return c->as<oc::RealVectorControlSpace::ControlType>()->values;
        buf[0] = (double)c->as<oc::DiscreteControlSpace::ControlType>()->value;
        return buf;
    }
    void toRaw(const world::World &w, const ob::State *s, double *x)
    {
        if (w.kind == world::World::SE2)
        {
            const auto *r = s->as<ob::SE2StateSpace::StateType>();
            x[0] = r->getX();
            x[1] = r->getY();
            x[2] = r->getYaw();
        }
        else
        {
            const auto *r = s->as<ob::RealVectorStateSpace::StateType>();
            for (int i = 0; i < w.dim; i++)
                x[i] = r->values[i];
        }
    }
    void fromRaw(const world::World &w, const double *x, ob::State *s)
    {
        if (w.kind == world::World::SE2)
        {
            auto *r = s->as<ob::SE2StateSpace::StateType>();
            r->setXY(x[0], x[1]);
            r->setYaw(x[2]);
        }
        else
        {
            auto *r = s->as<ob::RealVectorStateSpace::StateType>();
            for (int i = 0; i < w.dim; i++)
                r->values[i] = x[i];
        }
    }

    // the propagator handed to the library: the same closed-form map (user code by design)
    class Propagator : public oc::StatePropagator
    {
    public:
        Propagator(oc::SpaceInformation *si, const world::World *w, const System *sys, bool steer, const std::vector<double> &ulo,
                   const std::vector<double> &uhi)
          : oc::StatePropagator(si), w_(w), sys_(sys), steer_(steer), ulo_(ulo), uhi_(uhi)
        {
        }
        void propagate(const ob::State *state, const oc::Control *control, double duration, ob::State *result) const override
        {
            double x[8], o[8];
            toRaw(*w_, state, x);
            double ub[1];
            sys_->step(x, ctrlValues(*sys_, control, ub), duration, o);
            fromRaw(*w_, o, result);
            calls++;
        }
        bool canSteer() const override
        {
            return steer_;
        }
        // point system only: constant velocity towards the target, slowed down until it is within the control bounds
        bool steer(const ob::State *from, const ob::State *to, oc::Control *result, double &duration) const override
        {
            if (!steer_)
                return false;
            double a[8], b[8];
            toRaw(*w_, from, a);
            toRaw(*w_, to, b);
            double T = 0;
            for (int i = 0; i < sys_->n; i++)
            {
                double d = b[i] - a[i];
                double lim = d > 0 ? uhi_[(size_t)i] : -ulo_[(size_t)i];
                if (d != 0 && lim <= 0)
                    return false;  // cannot move that way
                if (d != 0)
                    T = std::max(T, std::fabs(d) / lim);
            }
            if (T <= 0)
                return false;
            auto *u = result->as<oc::RealVectorControlSpace::ControlType>()->values;
            for (int i = 0; i < sys_->n; i++)
                u[i] = std::min(uhi_[(size_t)i], std::max(ulo_[(size_t)i], (b[i] - a[i]) / T));
            duration = T;
            steers++;
            return true;
        }
        mutable long calls = 0, steers = 0;
        void setControlBounds(const std::vector<double> &lo, const std::vector<double> &hi)
        {
            ulo_ = lo;
            uhi_ = hi;
        }

    private:
        const world::World *w_;
        const System *sys_;
        bool steer_;
        std::vector<double> ulo_, uhi_;
    };

    class PosDecomposition : public oc::GridDecomposition
    {
    public:
        PosDecomposition(int len, const world::World *w, const ob::RealVectorBounds &b) : oc::GridDecomposition(len, 2, b), w_(w)
        {
        }
        void project(const ob::State *s, std::vector<double> &coord) const override
        {
            double p[3];
            w_->pos(s, p);
            coord.assign(p, p + 2);
        }
        void sampleFullState(const ob::StateSamplerPtr &sampler, const std::vector<double> &coord, ob::State *s) const override
        {
            sampler->sampleUniform(s);
            if (w_->kind == world::World::SE2)
                s->as<ob::SE2StateSpace::StateType>()->setXY(coord[0], coord[1]);
            else
            {
                s->as<ob::RealVectorStateSpace::StateType>()->values[0] = coord[0];
                s->as<ob::RealVectorStateSpace::StateType>()->values[1] = coord[1];
            }
        }

    private:
        const world::World *w_;
    };

    // validity as the library's documentation and demos ask of users of control planners: inside the state-space bounds
    // (propagation can leave them) and collision free
    class CtrlValidity : public world::WorldValidity
    {
    public:
        CtrlValidity(const ob::SpaceInformationPtr &si, const world::World *w) : world::WorldValidity(si, w), sp_(si->getStateSpace().get())
        {
        }
        bool isValid(const ob::State *s) const override
        {
            bool v = world::WorldValidity::isValid(s);  // counts, budgets
            return v && sp_->satisfiesBounds(s);
        }

    private:
        const ob::StateSpace *sp_;
    };

    struct StopSolve : std::exception
    {
    };

    struct Case
    {
        world::WorldPtr w;
        System sys;
        std::shared_ptr<oc::RealVectorControlSpace> cs;  // null for the discrete-control system
        std::shared_ptr<oc::ControlSpace> csAny;
        std::shared_ptr<oc::SpaceInformation> csi;
        std::shared_ptr<Propagator> prop;
        std::shared_ptr<world::Query> q;  // current query
        std::vector<std::shared_ptr<world::Query>> qs;
        std::vector<double> ulo, uhi;
        double stepSize = 0.1;
        unsigned minD = 1, maxD = 10;
    };
}  // namespace

class CtrlSim : public sim::Engine
{
public:
    std::string name() const override
    {
        return "ctrlsim";
    }
    bool forkPerCase() const override
    {
        return true;
    }
    long defaultCases(const sim::Options &) const override
    {
        return 100000000;
    }
    int cpuLimit(const sim::Options &o) const override
    {
        return o.thorough() ? 30 : 10;
    }
    void init(const sim::Options &) override
    {
        ompl::msg::noOutputHandler();
        rngfault::install();
    }
    std::string crashContext(const Json &plan) const override
    {
        return " planner=control::" + plan.gets("planner");
    }
    bool judgesCrashes(const sim::Options &o) const override
    {
        return o.prop == "C03";  // "does not crash" is C03's clause; C02 / C20 judge what solve() reports (a crash is counted there)
    }
    void atChildExit(Json &e) override
    {
        auto &l = world::ledger();
        e["live_states"] = Json((long)l.live.size());
        e["bad_frees"] = Json(l.badFrees);
        e["allocs"] = Json(l.allocs);
    }
    void judgeExit(const sim::Options &o, const Json &plan, sim::CaseResult &r, const Json &e) override
    {
        if (o.prop != "C03" || e.isNull())
            return;
        std::string pl = plan.gets("planner");
        r.info["live_states_at_exit"] = e["live_states"];
        if (e.geti("bad_frees") > 0)
            r.violate("C03.free-of-non-live-state planner=control::" + pl, fmt("%ld frees of states that were not live (double free / foreign state)", (long)e.geti("bad_frees")));
        if (e.geti("live_states") > 0)
            r.violate("C03.state-leak planner=control::" + pl, fmt("%ld of %ld allocated states still live at process exit, after all destructors ran",
                                                                  (long)e.geti("live_states"), (long)e.geti("allocs")));
    }
    sim::CaseResult runCase(const sim::Options &o, const Json &plan);

    Json generate(const sim::Options &o, uint64_t caseSeed, long index) override
    {
        // C03 enumerates the cancellation index k of the first solve within a base case (fault enumeration)
        long stride = o.thorough() ? 96 : 32;
        long base = index, j = 0;
        uint64_t seed = caseSeed;
        if (o.prop == "C03")
        {
            base = index / stride;
            j = index % stride;
            seed = sim::mix(sim::mix(o.seed, "C03-ctrl-base"), (uint64_t)base);
        }
        sim::Rng g(seed);
        Json plan = Json::object();
        plan["kind"] = "ctrl";
        std::string only = o.get("planner");
        std::string planner = only.empty() ? PLANNERS[(size_t)base % 8] : only;
        plan["planner"] = planner;
        static const char *systems[] = {"car", "unicycle", "dint", "point", "point"};
        std::string system = g.pick(systems);
        // (a sixth of the cases, decided by a stream of its own so that the other plans keep their meaning) a vehicle with
        // ONE DISCRETE control: DiscreteControlSpace with a lower bound that need not be 0
        sim::Rng gd(sim::mix(seed, "discrete-control"));
        const bool dturn = gd.chance(1.0 / 6.0);
        if (dturn)
            system = "dturn";
        plan["system"] = system;
        Json w = Json::object();
        static const double los[] = {0, -5, -100, 0};
        static const double his[] = {10, 5, -90, 1};
        int bi = (int)g.below(4);
        if (system == "dint")
            bi = 1;  // velocities share the bounds of the positions: symmetric box
        double lo = los[bi], hi = his[bi], L = hi - lo;
        int dim = 2;
        if (system == "car" || system == "unicycle" || system == "dturn")
            w["space"] = "se2";
        else
        {
            w["space"] = "rv";
            dim = system == "dint" ? 4 : (int)g.range(2, 3);
            w["dim"] = dim;
            w["pdim"] = 2;
        }
        w["lo"] = lo;
        w["hi"] = hi;
        w["resolution"] = 0.01;
        auto rndPos = [&]() {
            std::vector<double> p(2);
            for (auto &x : p)
                x = g.real(lo + 0.05 * L, hi - 0.05 * L);
            return p;
        };
        std::vector<std::vector<double>> keep;
        int ns = g.chance(0.8) ? 1 : 2;
        for (int i = 0; i < ns + 3; i++)  // starts, goal, and start + goal of the second query (C03 histories)
            keep.push_back(rndPos());
        // obstacles: boxes, thin slabs, balls; end points stay free
        Json oj = Json::array();
        int nobst = g.chance(0.15) ? 0 : (int)g.range(1, 6);
        for (int k = 0, made = 0; k < nobst * 3 && made < nobst; k++)
        {
            Json j = Json::object();
            world::Obst ob_;
            if (g.chance(0.3))
            {
                ob_.type = 1;
                ob_.r = L * g.real(0.04, 0.15);
                ob_.c[0] = g.real(lo, hi);
                ob_.c[1] = g.real(lo, hi);
                j["t"] = "ball";
                Json c = Json::array();
                c.push(Json(ob_.c[0]));
                c.push(Json(ob_.c[1]));
                j["c"] = c;
                j["r"] = ob_.r;
            }
            else
            {
                ob_.type = 0;
                int thin = g.chance(0.5) ? (int)g.below(2) : -1;
                Json l = Json::array(), h = Json::array();
                for (int i = 0; i < 2; i++)
                {
                    double c = g.real(lo, hi), half = i == thin ? L * g.logReal(0.001, 0.01) : L * g.real(0.03, thin >= 0 ? 0.35 : 0.15);
                    ob_.lo[i] = c - half;
                    ob_.hi[i] = c + half;
                    l.push(Json(ob_.lo[i]));
                    h.push(Json(ob_.hi[i]));
                }
                j["t"] = "box";
                j["lo"] = l;
                j["hi"] = h;
            }
            bool hits = false;
            for (auto &p : keep)
            {
                if (ob_.type == 1)
                    hits = hits || std::hypot(p[0] - ob_.c[0], p[1] - ob_.c[1]) <= ob_.r + 0.02 * L;
                else
                    hits = hits || (p[0] >= ob_.lo[0] - 0.02 * L && p[0] <= ob_.hi[0] + 0.02 * L && p[1] >= ob_.lo[1] - 0.02 * L &&
                                    p[1] <= ob_.hi[1] + 0.02 * L);
            }
            if (hits)
                continue;
            oj.push(j);
            made++;
        }
        w["obstacles"] = oj;
        plan["world"] = w;
        // controls: asymmetric bounds scaled to the world, sometimes one control pinned (zero-width bound)
        int m = system == "point" ? dim : (dturn ? 1 : 2);
        Json ulo = Json::array(), uhi = Json::array();
        for (int i = 0; i < m; i++)
        {
            double a, b;
            if (dturn)
            {
                a = (double)gd.pick(std::vector<long>{-2, -1, -1, 0, 1});
                b = a + (double)gd.pick(std::vector<long>{1, 2, 2, 3});
                plan["speed"] = L * gd.real(0.1, 0.5);
                plan["turn_rate"] = gd.real(0.5, 3.0);
            }
            else if ((system == "car") && i == 1)
            {
                a = -g.real(0.2, 1.2);
                b = g.real(0.2, 1.2);
            }
            else if (system == "unicycle" && i == 1)
            {
                a = -g.real(0.5, 3.0);
                b = g.real(0.5, 3.0);
            }
            else
            {
                double s = L * g.real(0.1, 0.6);
                a = -s * g.pick(std::vector<double>{1.0, 1.0, 0.5, 0.1});
                b = s * g.pick(std::vector<double>{1.0, 1.0, 0.5, 0.1});
                if ((system == "car" || system == "unicycle") && g.chance(0.3))
                    a = s * 0.05;  // forward only
            }
            if (g.chance(0.05) && !dturn)
                a = b;  // pinned control
            ulo.push(Json(a));
            uhi.push(Json(b));
        }
        plan["ulo"] = ulo;
        plan["uhi"] = uhi;
        plan["car_len"] = L * g.real(0.02, 0.1);
        plan["step"] = g.pick(std::vector<double>{0.01, 0.02, 0.05, 0.1, 0.1, 0.25});
        long minD = g.pick(std::vector<long>{1, 1, 1, 2, 5});
        plan["min_dur"] = minD;
        plan["max_dur"] = minD + g.pick(std::vector<long>{0, 1, 4, 9, 19, 49});
        plan["k_ctrl"] = g.pick(std::vector<long>{1, 1, 2, 5, 10});
        plan["steer"] = system == "point" && g.chance(0.3);
        // queries
        auto fullState = [&](const std::vector<double> &p) {
            Json s = Json::array();
            s.push(Json(p[0]));
            s.push(Json(p[1]));
            if (system == "car" || system == "unicycle" || system == "dturn")
                s.push(Json(g.real(-3.14, 3.14)));
            else if (system == "dint")
            {
                s.push(Json(g.chance(0.5) ? 0.0 : g.real(-0.1 * L, 0.1 * L)));
                s.push(Json(g.chance(0.5) ? 0.0 : g.real(-0.1 * L, 0.1 * L)));
            }
            else
                for (int i = 2; i < dim; i++)
                    s.push(Json(g.real(lo, hi)));
            return s;
        };
        auto makeQ = [&](size_t first, int n, size_t goalIdx) {
            Json q = Json::object();
            Json starts = Json::array();
            for (int i = 0; i < n; i++)
                starts.push(fullState(keep[first + (size_t)i]));
            q["starts"] = starts;
            Json goal = Json::object();
            double thr = L * g.pick(std::vector<double>{0.02, 0.05, 0.1, 0.2});
            if (g.chance(0.5))
            {
                goal["type"] = "region";
                Json c = Json::array();
                c.push(Json(keep[goalIdx][0]));
                c.push(Json(keep[goalIdx][1]));
                goal["center"] = c;
            }
            else
            {
                goal["type"] = "state";
                Json gs = Json::array();
                gs.push(fullState(keep[goalIdx]));
                goal["states"] = gs;
                thr *= 2;
            }
            goal["threshold"] = thr;
            q["goal"] = goal;
            return q;
        };
        plan["query"] = makeQ(0, ns, (size_t)ns);
        plan["query2"] = makeQ((size_t)ns + 1, 1, (size_t)ns + 2);
        // planner knobs
        Json pr = Json::object();
        if (g.chance(0.7))
            pr["goal_bias"] = g.pick(std::vector<double>{0.0, 0.05, 0.3, 0.9, 1.0});
        if (planner == "SST" && g.chance(0.7))
        {
            pr["selection_radius"] = L * g.pick(std::vector<double>{0.0, 0.01, 0.05, 0.3});
            pr["pruning_radius"] = L * g.pick(std::vector<double>{0.0, 0.005, 0.02, 0.2});
        }
        if (planner == "EST" && g.chance(0.6))
            pr["range"] = L * g.pick(std::vector<double>{0.01, 0.1, 0.5, 2.0});
        if (planner == "KPIECE1" && g.chance(0.6))
        {
            pr["border_fraction"] = g.pick(std::vector<double>{0.001, 0.5, 0.8, 1.0});
            pr["max_close_samples"] = g.pick(std::vector<long>{0, 1, 30, 100});
        }
        if ((planner == "SyclopRRT" || planner == "SyclopEST") && g.chance(0.7))
        {
            pr["free_volume_samples"] = g.pick(std::vector<long>{10, 1000, 100000});
            pr["num_region_expansions"] = g.pick(std::vector<long>{1, 10, 100});
            pr["num_tree_expansions"] = g.pick(std::vector<long>{1, 5, 50});
            pr["prob_abandon_lead_early"] = g.pick(std::vector<double>{0.0, 0.25, 1.0});
            pr["prob_shortest_path_lead"] = g.pick(std::vector<double>{0.0, 0.95, 1.0});
        }
        plan["params"] = pr;
        plan["grid"] = g.pick(std::vector<long>{1, 2, 4, 8, 16});
        plan["ompl_seed"] = (long)g.range(1, 2000000000);
        Json ops = Json::array();
        auto solve = [&](long k, bool mayFault) {
            Json op = Json::object();
            op["op"] = "solve";
            op["k"] = Json(k);
            if (mayFault && g.chance(0.3))
                op["fault"] = rngfault::gen(g, 400);
            ops.push(op);
        };
        auto simple = [&](const char *n) {
            Json op = Json::object();
            op["op"] = n;
            ops.push(op);
        };
        long budget = o.thorough() ? 20000 : 5000;
        if (o.prop == "C03")
        {
            // k enumerated densely from 0; the last slots of the stride reach far beyond the first solution
            long dense = stride - 8;
            long k = j < dense ? j : (long)(dense * std::pow(1.7, (double)(j - dense + 1)));
            solve(k, false);
            // the rest of the history depends on the base case only
            int n = (int)g.range(1, 5);
            bool second = false;
            for (int i = 0; i < n; i++)
            {
                double u = g.unit();
                if (u < 0.35)
                    solve(g.chance(0.5) ? g.range(0, 60) : g.range(60, budget / 2), false);
                else if (u < 0.5)
                    simple("getdata");
                else if (u < 0.7)
                {
                    Json op = Json::object();
                    op["op"] = "newquery";
                    op["how"] = g.pick(std::vector<std::string>{"clear-then-set", "set-then-clear", "clearquery-then-set"});
                    op["query"] = second ? 0L : 1L;
                    ops.push(op);
                    second = !second;
                    solve(g.chance(0.3) ? g.range(0, 40) : g.range(40, budget / 2), false);
                }
                else if (u < 0.8)
                {
                    simple("clear");
                    solve(g.range(0, budget / 2), false);
                }
                else
                    simple("getdata");
            }
        }
        else if (o.prop == "C20")
        {
            solve(g.chance(0.5) ? g.range(0, 300) : g.range(300, budget / 2), false);
            if (g.chance(0.3))
                solve(g.range(0, 500), false);
            plan["perturb_seed"] = (long)g.range(1, 1000000000);
            if (g.chance(0.04))
                plan["ompl_seed"] = 0L;  // accepted with a warning ("Using 1 instead"): must reproduce like any other seed
        }
        else
        {
            // C02: 1-3 solves on the same planner instance (a later solve resumes), each cancelled at its k-th evaluation
            int nops = g.chance(0.6) ? 1 : (int)g.range(2, 3);
            for (int i = 0; i < nops; i++)
                solve((long)g.pick(std::vector<long>{0, 1, 2, 5, 20, 100, 500, 2000, 2000, budget}), true);
            // (drawn last) the application tightens the control bounds of the space the planner is using, clears the
            // planner and plans again: every control of the new solutions lies within the bounds that hold now
            if (g.chance(0.15) && !dturn)
            {
                Json op = Json::object();
                op["op"] = "tighten";
                op["factor"] = g.pick(std::vector<double>{0.2, 0.5, 0.8});
                ops.push(op);
                solve((long)g.pick(std::vector<long>{20, 100, 500, 2000, budget}), false);
            }
        }
        // (drawn last) C03: the solve after clear() + new problem definition is compared with the first solve of a never-used
        // planner under one random stream (see plansim: hook H1, all-draws mode)
        if (o.prop == "C03")
            for (size_t ri = 0; ri + 1 < ops.size(); ri++)
                if (ops.at(ri).gets("op") == "newquery" && ops.at(ri).gets("how") != "clearquery-then-set" && ops.at(ri + 1).gets("op") == "solve" &&
                    !ops.at(ri + 1).has("fault") && g.chance(0.6))
                    ops.at(ri + 1)["ref_stream"] = (long)g.range(1, 2000000000);
        plan["ops"] = ops;
        return plan;
    }

    std::vector<Json> simplifications(const Json &plan) override
    {
        std::vector<Json> out;
        const Json &obst = plan["world"]["obstacles"];
        for (size_t i = 0; i < obst.size(); i++)
        {
            Json p = plan;
            Json o2 = Json::array();
            for (size_t j = 0; j < obst.size(); j++)
                if (j != i)
                    o2.push(obst.at(j));
            p["world"]["obstacles"] = o2;
            out.push_back(p);
        }
        if (plan["params"].isObj() && plan["params"].size() > 0)
        {
            Json p = plan;
            p["params"] = Json::object();
            out.push_back(p);
        }
        const auto &ops = plan["ops"].items();
        for (size_t i = 0; i < ops.size(); i++)
            if (ops[i].has("fault"))
            {
                Json p = plan;
                Json o2 = Json::array();
                for (size_t j = 0; j < ops.size(); j++)
                {
                    Json op = ops[j];
                    if (j == i)
                    {
                        Json c = Json::object();
                        c["op"] = op["op"];
                        c["k"] = op["k"];
                        op = c;
                    }
                    o2.push(op);
                }
                p["ops"] = o2;
                out.push_back(p);
            }
        if (plan.getb("steer"))
        {
            Json p = plan;
            p["steer"] = false;
            out.push_back(p);
        }
        if (plan.geti("k_ctrl", 1) != 1)
        {
            Json p = plan;
            p["k_ctrl"] = 1L;
            out.push_back(p);
        }
        return out;
    }

    static void buildCase(Case &c, const Json &plan)
    {
        c.w = world::build(plan["world"]);
        c.sys.sys = sysOf(plan.gets("system"));
        c.sys.len = plan.getd("car_len", 1.0);
        c.sys.n = c.w->kind == world::World::SE2 ? 3 : c.w->dim;
        for (auto &x : plan["ulo"].items())
            c.ulo.push_back(x.d());
        for (auto &x : plan["uhi"].items())
            c.uhi.push_back(x.d());
        c.sys.m = (int)c.ulo.size();
        c.sys.speed = plan.getd("speed", 1.0);
        c.sys.turn = plan.getd("turn_rate", 1.0);
        c.sys.discrete = c.sys.sys == DTURN;
        if (c.sys.discrete)
            c.csAny = std::make_shared<oc::DiscreteControlSpace>(c.w->ss, (int)c.ulo[0], (int)c.uhi[0]);
        else
        {
            c.cs = std::make_shared<oc::RealVectorControlSpace>(c.w->ss, (unsigned)c.sys.m);
            ob::RealVectorBounds cb((unsigned)c.sys.m);
            for (int i = 0; i < c.sys.m; i++)
            {
                cb.setLow((unsigned)i, c.ulo[(size_t)i]);
                cb.setHigh((unsigned)i, c.uhi[(size_t)i]);
            }
            c.cs->setBounds(cb);
            c.csAny = c.cs;
        }
        c.csi = std::make_shared<oc::SpaceInformation>(c.w->ss, c.csAny);
        c.csi->setStateValidityChecker(std::make_shared<CtrlValidity>(c.csi, c.w.get()));
        c.prop = std::make_shared<Propagator>(c.csi.get(), c.w.get(), &c.sys, plan.getb("steer"), c.ulo, c.uhi);
        c.csi->setStatePropagator(c.prop);
        c.stepSize = plan.getd("step", 0.1);
        c.minD = (unsigned)plan.geti("min_dur", 1);
        c.maxD = (unsigned)plan.geti("max_dur", 10);
        c.csi->setPropagationStepSize(c.stepSize);
        c.csi->setMinMaxControlDuration(c.minD, c.maxD);
        unsigned k = (unsigned)plan.geti("k_ctrl", 1);
        if (!plan.getb("steer"))
            c.csi->setDirectedControlSamplerAllocator(
                [k](const oc::SpaceInformation *si) { return std::make_shared<oc::SimpleDirectedControlSampler>(si, k); });
        c.csi->setup();
        c.w->si = c.csi;  // queries, goals are built on the control space information
        c.qs.push_back(world::makeQuery(c.w, plan["query"]));
        if (plan.has("query2"))
            c.qs.push_back(world::makeQuery(c.w, plan["query2"]));
        c.q = c.qs[0];
    }

    static ob::PlannerPtr makePlanner(Case &c, const Json &plan)
    {
        std::string n = plan.gets("planner");
        ob::PlannerPtr p;
        if (n == "RRT" || n == "RRTi")
        {
            auto r = std::make_shared<oc::RRT>(c.csi);
            r->setIntermediateStates(n == "RRTi");
            p = r;
        }
        else if (n == "SST")
            p = std::make_shared<oc::SST>(c.csi);
        else if (n == "EST")
            p = std::make_shared<oc::EST>(c.csi);
        else if (n == "KPIECE1")
            p = std::make_shared<oc::KPIECE1>(c.csi);
        else if (n == "PDST")
            p = std::make_shared<oc::PDST>(c.csi);
        else
        {
            ob::RealVectorBounds b(2);
            b.setLow(c.w->lo);
            b.setHigh(c.w->hi);
            auto d = std::make_shared<PosDecomposition>((int)plan.geti("grid", 4), c.w.get(), b);
            if (n == "SyclopRRT")
                p = std::make_shared<oc::SyclopRRT>(c.csi, d);
            else
                p = std::make_shared<oc::SyclopEST>(c.csi, d);
        }
        for (auto &kv : plan["params"].members())
        {
            std::string v = kv.second.isNum() ? fmt("%.17g", kv.second.d()) : kv.second.s();
            if (p->params().hasParam(kv.first))
                p->params().setParam(kv.first, v);
        }
        return p;
    }

    // the oracle: independent replay of a reported path
    static void judgePath(sim::CaseResult &res, Case &c, const std::string &planner, const oc::PathControl &path, bool approximate, double difference,
                          const std::string &when, const char *form, const std::string &P = "C02")
    {
        std::string ctx = std::string(" planner=") + (P == "C02" ? "" : "control::") + planner;
        auto &st = const_cast<oc::PathControl &>(path).getStates();
        auto &cs = const_cast<oc::PathControl &>(path).getControls();
        auto &du = const_cast<oc::PathControl &>(path).getControlDurations();
        if (st.empty())
        {
            res.violate(P + ".empty-solution-path" + ctx, when + ": the reported path has no states");
            return;
        }
        if (cs.size() + 1 != st.size() || du.size() != cs.size())
        {
            res.violate(P + ".path-arity" + ctx, when + fmt(": %zu states, %zu controls, %zu durations", st.size(), cs.size(), du.size()));
            return;
        }
        // starts from a valid start state
        bool isStart = false;
        for (auto &s : c.q->starts)
            isStart = isStart || (c.csi->satisfiesBounds(s.get()) && c.w->valid(s.get()) && c.w->ss->equalStates(s.get(), st[0]));
        if (!isStart)
        {
            res.violate(P + ".path-does-not-begin-at-a-valid-start" + ctx, when + ": first state of the reported path is not one of the valid start states");
            return;
        }
        double scale = std::max(1.0, c.w->ss->getMaximumExtent());
        double x[8], y[8];
        ob::State *tmp = c.w->ss->allocState();
        for (size_t i = 0; i < cs.size() && res.vclass.empty(); i++)
        {
            double ub[1];
            const double *u = ctrlValues(c.sys, cs[i], ub);
            for (int k = 0; k < c.sys.m; k++)
                if (!(u[k] >= c.ulo[(size_t)k] && u[k] <= c.uhi[(size_t)k]))
                {
                    res.violate(P + ".control-out-of-bounds" + ctx,
                                when + fmt(": control %zu component %d = %.17g outside [%.17g, %.17g] (%s)", i, k, u[k], c.ulo[(size_t)k], c.uhi[(size_t)k], form));
                    break;
                }
            if (!res.vclass.empty())
                break;
            double ratio = du[i] / c.stepSize;
            double steps = std::floor(ratio + 0.5);
            if (!(du[i] >= 0) || std::fabs(ratio - steps) > 1e-9 * std::max(1.0, steps))
            {
                res.violate(P + ".duration-not-whole-steps" + ctx, when + fmt(": duration %zu = %.17g is %.12g propagation steps of %.17g (%s)", i, du[i], ratio, c.stepSize, form));
                break;
            }
            if (steps == 0)
                res.probes["zero-duration-control-in-path"]++;
            if ((steps < c.minD || steps > c.maxD) && form[0] == 'a' && form[1] == 's')  // "as reported" only
                res.probes["duration-outside-min-max(not judged)"]++;
            toRaw(*c.w, st[i], x);
            for (long s = 0; s < (long)steps; s++)
            {
                c.sys.step(x, u, c.stepSize, y);
                std::copy(y, y + c.sys.n, x);
                fromRaw(*c.w, x, tmp);
                if (!c.csi->satisfiesBounds(tmp) || !c.w->valid(tmp))
                {
                    res.violate(P + ".replay-hits-invalid-state" + ctx,
                                when + fmt(": replaying control %zu (%ld steps), step %ld lands on an %s state (%s)", i, (long)steps, s + 1,
                                           c.csi->satisfiesBounds(tmp) ? "invalid" : "out-of-bounds", form));
                    break;
                }
            }
            if (!res.vclass.empty())
                break;
            double d = c.w->ss->distance(tmp, st[i + 1]);
            if (steps == 0)
                d = c.w->ss->distance(st[i], st[i + 1]);
            if (!(d <= 1e-6 * scale))
            {
                res.violate(P + ".replay-deviates-from-path-state" + ctx,
                            when + fmt(": replaying control %zu for %ld steps from state %zu ends %.3g away from state %zu (%s)", i, (long)steps, i, d, i + 1, form));
                break;
            }
        }
        c.w->ss->freeState(tmp);
        if (!res.vclass.empty())
            return;
        const ob::State *last = st.back();
        double dist = 0;
        bool inGoal = c.q->pdef->getGoal()->isSatisfied(last, &dist);
        if (!approximate && !inGoal)
            res.violate(P + ".exact-solution-ends-outside-goal" + ctx, when + fmt(": solution not flagged approximate but its last state is %.6g from the goal (%s)", dist, form));
        else if (approximate && difference >= 0 && std::fabs(difference - dist) > 1e-6 * scale)
            res.probes["approximate-difference-differs-from-goal-distance(not judged)"]++;
    }

    sim::CaseResult run(const sim::Options &o, const Json &plan) override
    {
        if (o.prop == "C20" && !g_oneshot)
            return detrun::runDet(o, plan, "ctrlsim", "control::" + plan.gets("planner") + "/" + plan.gets("system") + "/");
        return runCase(o, plan);
    }

    std::string rule(const sim::Options &o) const override
    {
        std::string sys = "control planner (RRT, RRT with intermediate states, SST, EST, KPIECE1, PDST, SyclopRRT, SyclopEST; round-robin) x "
                          "system (kinematic car, unicycle on SE(2); double integrator on R^4; velocity-controlled point in R^2/R^3, optionally "
                          "steerable) x asymmetric / one-sided / pinned control bounds x propagation step size x min/max control duration x "
                          "directed-control-sampler sample count x obstacle layout (boxes, thin slabs, balls) x 1-2 starts x goal (position region "
                          "or sampleable goal state) x planner knobs x seed";
        if (o.prop == "C03")
            return "base case = " + sys + " x second query; within a base case the first solve() is cancelled at EVERY termination-condition "
                   "evaluation index k = 0..23 (quick) / 0..87 (thorough) plus 8 geometrically spaced larger k, each in its own forked child, "
                   "followed by the base case's history of 1-5 further ops (resumed solve cancelled at k', getPlannerData, clear, clearQuery / "
                   "setProblemDefinition to the other query in three orders, each followed by a solve). non-trivial = the history ran to its end "
                   "with every op judged; distinct = distinct (planner, system, goal type, op kinds, outcomes) signatures";
        if (o.prop == "C20")
            return "case = " + sys + " x one or two solves cancelled by an evaluation-count termination condition, executed in three separately "
                   "started processes (exec) under address-layout / heap / environment / earlier-work perturbations; non-trivial = the planner "
                   "really ran in all three; distinct = distinct (planner, system, outcome) signatures";
        return "case = " + sys + " x history of 1-3 solves on the same instance, each cancelled at its "
               "k-th termination-condition evaluation (k from 0 to 20000), 30% with an extreme-draw burst (hook H1). non-trivial = at "
               "least one reported path was replayed; distinct = distinct (planner, system, goal type, obstacle count, durations, sample count) signatures";
    }
    std::vector<std::string> realComponents(const sim::Options &) const override
    {
        return {"control::RRT / SST / EST / KPIECE1 / PDST / SyclopRRT / SyclopEST", "control::SpaceInformation (propagateWhileValid)",
                "RealVectorControlSpace / DiscreteControlSpace + samplers", "SimpleDirectedControlSampler / SteeredControlSampler", "PathControl (incl. interpolate)",
                "GridDecomposition", "ProblemDefinition", "nearest-neighbour structures", "ompl::RNG (hook H1 on raw draws)"};
    }
    std::vector<std::string> stubComponents(const sim::Options &) const override
    {
        return {"state propagator (harness: closed-form one-step maps; the oracle replays with the same map on raw coordinates)",
                "state validity checker, goal region, projection, decomposition projection (harness)", "raw random draws while a burst is armed (hook H1)",
                "termination condition (harness: evaluation counter)"};
    }
    std::vector<std::string> assumptions(const sim::Options &o) const override
    {
        std::vector<std::string> a = {"replay tolerance 1e-6 x max(1, extent) on the state-space distance (PDST re-propagates split motions)",
                                      "'valid' = inside the state-space bounds and accepted by the validity predicate (the predicate handed to the "
                                      "library includes the bounds, as its documentation asks of users of control planners)"};
        if (o.prop == "C03")
            a.push_back("states are accounted by the ledger mix-in at process exit, after all destructors; controls are not states and are not accounted");
        else
            a.push_back("crashes / hangs / exceptions of a control planner are counted, not judged here (C03 judges them)");
        return a;
    }
};

sim::CaseResult CtrlSim::runCase(const sim::Options &o, const Json &plan)
{
    sim::CaseResult res;
    const std::string P = o.prop.empty() ? "C02" : o.prop;
    const bool c03 = P == "C03", c20 = P == "C20";
    std::string planner = plan.gets("planner");
    std::string sfx = std::string(" planner=") + (P == "C02" ? "" : "control::") + planner;
    ompl::RNG::setSeed((std::uint_fast32_t)plan.geti("ompl_seed", 1));
    uint64_t h = 1469598103934665603ULL;
    long judged = 0, rngFaults = 0;
    std::set<std::string> outcomes, opKinds;
    {
        Case c;
        buildCase(c, plan);
        res.sig = "ctrl/" + planner + "/" + plan.gets("system") + (plan.getb("steer") ? "+steer" : "") + "/" + c.q->goalType +
                  fmt("/o%zu/d%ld-%ld/k%ld", plan["world"]["obstacles"].size(), (long)plan.geti("min_dur"), (long)plan.geti("max_dur"), (long)plan.geti("k_ctrl"));
        ob::PlannerPtr pl = makePlanner(c, plan);
        pl->setProblemDefinition(c.q->pdef);
        try
        {
            pl->setup();
        }
        catch (ompl::Exception &e)
        {
            res.probes["setup-refused(ompl::Exception)"]++;
            res.info["setup"] = std::string(e.what());
            res.trace = h;
            return res;
        }
        const auto &ops = plan["ops"].items();
        // C20 compares processes: only deterministic budgets there
        c.w->cpuBudget = c20 ? 1e9 : (o.thorough() ? 15.0 : 4.0);
        size_t cur = 0;
        std::vector<const ob::State *> foreign;  // start / goal states of the previous query
        std::vector<std::shared_ptr<world::Query>> retired;
        for (size_t oi = 0; oi < ops.size() && res.vclass.empty(); oi++)
        {
            const Json &op = ops[oi];
            std::string kind = op.gets("op", "solve");
            opKinds.insert(kind);
            world::Query &q = *c.q;
            if (kind == "getdata")
            {
                oc::PlannerData d(c.csi);
                pl->getPlannerData(d);
                h = sim::hashU64(h, d.numVertices());
                res.faults["F10-getPlannerData"]++;
                continue;
            }
            if (kind == "tighten")
            {
                double f = op.getd("factor", 0.5);
                ob::RealVectorBounds nb((unsigned)c.sys.m);
                for (int i = 0; i < c.sys.m; i++)
                {
                    double mid = 0.5 * (c.ulo[(size_t)i] + c.uhi[(size_t)i]), half = 0.5 * (c.uhi[(size_t)i] - c.ulo[(size_t)i]) * f;
                    c.ulo[(size_t)i] = mid - half;
                    c.uhi[(size_t)i] = mid + half;
                    nb.setLow((unsigned)i, c.ulo[(size_t)i]);
                    nb.setHigh((unsigned)i, c.uhi[(size_t)i]);
                }
                c.cs->setBounds(nb);
                c.prop->setControlBounds(c.ulo, c.uhi);
                pl->clear();
                c.q->pdef->clearSolutionPaths();  // the old solutions were made under the old bounds
                res.faults["F10-control-bounds-tightened-then-clear"]++;
                continue;
            }
            if (kind == "clear" || kind == "newquery")
            {
                res.faults[kind == "clear" ? "F10-clear" : "F10-new-problem-definition"]++;
                std::string how = op.gets("how", "clear");
                size_t next = kind == "newquery" ? (size_t)op.geti("query") % c.qs.size() : cur;
                if (kind == "newquery" && c03 && oi + 1 < ops.size() && ops[oi + 1].has("ref_stream"))
                {
                    // goal objects carry state (GoalStates cycles through its states): the planner gets a never-used
                    // problem definition of the same query, as the never-used reference planner will
                    retired.push_back(c.qs[next]);
                    c.qs[next] = world::makeQuery(c.w, plan[next == 0 ? "query" : "query2"]);
                }
                if (how == "set-then-clear")
                {
                    pl->setProblemDefinition(c.qs[next]->pdef);
                    pl->clear();
                }
                else if (how == "clearquery-then-set")
                {
                    pl->clearQuery();
                    pl->setProblemDefinition(c.qs[next]->pdef);
                }
                else
                {
                    pl->clear();
                    if (kind == "newquery")
                        pl->setProblemDefinition(c.qs[next]->pdef);
                }
                foreign.clear();
                if (next != cur)
                {
                    for (auto &s : c.qs[cur]->starts)
                        foreign.push_back(s.get());
                    for (auto &s : c.qs[cur]->goalStates)
                        foreign.push_back(s.get());
                }
                // the new query starts from an empty problem definition, as a user who "switches to a new problem" has
                c.qs[next]->pdef->clearSolutionPaths();
                cur = next;
                c.q = c.qs[cur];
                continue;
            }
            // ---- solve -----------------------------------------------------------------------------------------
            long k = op.geti("k", 100), evals = 0, after = 0;
            bool fired = false;
            ob::PlannerTerminationCondition ptc([&] {
                if (fired)
                {
                    if (++after > 10000)
                        throw StopSolve();
                    return true;
                }
                if (evals++ >= k || ((evals & 63) == 0 && world::cpuSeconds() > c.w->cpuBudget))
                    fired = true;
                return fired;
            });
            bool f5 = rngfault::arm(op["fault"]);
            const long stepBudget = o.thorough() ? 20000000 : 4000000;
            c.w->validBudget = c.w->validCalls.load() + stepBudget;
            world::ledger().cpuBudget = c.w->cpuBudget;
            world::ledger().armed = !c20;
            ob::PlannerStatus status;
            std::string when = fmt("op %zu (solve cancelled at evaluation %ld%s)", oi, k, f5 ? ", extreme-draw burst" : "");
            ob::PlannerSolution topBefore(nullptr);
            bool had = q.pdef->getSolution(topBefore);
            auto before = q.pdef->getSolutions();
            bool refRun = c03 && op.has("ref_stream") && before.empty();
            long drawsA = 0;
            struct DrawsGuard
            {
                ~DrawsGuard()
                {
                    rngfault::allDrawsOff();
                }
            } drawsGuard;
            if (refRun && !pl->isSetup())
            {
                try
                {
                    pl->setup();
                }
                catch (ompl::Exception &)
                {
                    // refused in setup(), as solve() would have been: the history ends here
                    res.probes["setup-refused(ompl::Exception)"]++;
                    break;
                }
            }
            if (refRun)
                rngfault::allDrawsOn((uint64_t)op.geti("ref_stream"));
            try
            {
                status = pl->solve(ptc);
                drawsA = rngfault::allDrawsOff();
            }
            catch (world::BudgetExhausted &)
            {
                res.probes["step-budget-exhausted"]++;
                res.inconclusive = true;
                res.trace = h;
                sim::finishCaseNow(res);
            }
            catch (StopSolve &)
            {
                if (c03)
                    res.violate(P + ".unbounded-return" + sfx, when + ": solve() evaluated the termination condition 10^4 more times after it became true");
                else
                {
                    res.probes["planner-ignored-termination-condition(10^4 evaluations after it fired)"]++;
                    res.inconclusive = true;
                }
                res.trace = h;
                sim::finishCaseNow(res);  // the planner was abandoned mid-solve: no teardown, no exit accounting
            }
            catch (ompl::Exception &e)
            {
                std::string msg = e.what();
                if (c03)
                {
                    std::string key;
                    for (char ch : msg.substr(0, 60))
                        key += (isalnum((unsigned char)ch) ? ch : '_');
                    res.violate(P + ".exception-from-solve" + sfx + " what=" + key, when + ": ompl::Exception: " + msg);
                }
                else
                {
                    res.probes["solve-threw-ompl::Exception(not judged)"]++;
                    res.inconclusive = true;
                }
                res.info["exception"] = msg;
                res.trace = h;
                sim::finishCaseNow(res);
            }
            c.w->validBudget = -1;
            world::ledger().armed = false;
            rngFaults += rngfault::disarm();
            if (fired)
                res.faults["F1-cancel-at-kth-ptc-evaluation"]++;
            if (oi > 0)
                res.faults["F10-resumed-solve"]++;
            h = sim::hashU64(h, (uint64_t)(ob::PlannerStatus::StatusType)status);
            h = sim::hashU64(h, (uint64_t)evals);
            h = sim::hashU64(h, (uint64_t)c.w->validCalls.load());
            outcomes.insert(status.asString());
            auto afterSols = q.pdef->getSolutions();
            std::vector<ob::PlannerSolution> added;
            for (auto &s : afterSols)
            {
                bool old = false;
                for (auto &b : before)
                    old = old || b.path_ == s.path_;
                if (!old)
                    added.push_back(s);
            }
            bool isSol = (bool)status, anyExact = false, anyApprox = false;
            for (auto &s : afterSols)
                (s.approximate_ ? anyApprox : anyExact) = true;
            auto stt = (ob::PlannerStatus::StatusType)status;
            if (isSol && afterSols.empty())
                res.violate(P + ".status-reports-solution-without-path" + sfx, when + ": solve() returned " + status.asString() + " but the problem definition holds no solution");
            else if (stt == ob::PlannerStatus::EXACT_SOLUTION && !anyExact)
                res.violate(P + ".exact-status-approximate-path" + sfx, when + ": solve() returned Exact solution but only an approximate path is recorded");
            else if (c03 && stt == ob::PlannerStatus::APPROXIMATE_SOLUTION && !anyApprox)
                res.violate(P + ".status-approximate-without-approximate-solution" + sfx, when + ": status Approximate solution but the problem definition holds no approximate one");
            else if (c03 && !isSol && !added.empty())
                res.violate(P + ".non-solution-status-added-path" + sfx, when + ": status " + status.asString() + " but a solution path was added");
            else if (c03 && stt == ob::PlannerStatus::INVALID_START && q.anyValidStart)
                res.violate(P + ".status-invalid-start-with-valid-start" + sfx, when + ": status Invalid start although a valid in-bounds start state was given");
            if (!res.vclass.empty())
                break;
            // every path now in the problem definition is replayed (C02's oracle; for C03 it is the "never reports an empty
            // or half-built path" clause; C20 only hashes)
            for (auto &sol : afterSols)
            {
                auto *pc = dynamic_cast<oc::PathControl *>(sol.path_.get());
                if (!pc)
                {
                    res.violate(P + ".solution-is-not-a-control-path" + sfx, when + ": reported solution is not a PathControl");
                    break;
                }
                for (auto *s : pc->getStates())
                    h = c.w->hashState(h, s);
                for (double d : pc->getControlDurations())
                    h = sim::hashDouble(h, d);
                judged++;
                if (c20)
                    continue;
                judgePath(res, c, planner, *pc, sol.approximate_, sol.difference_, when, "as reported", P);
                res.probes[sol.approximate_ ? "approximate-solutions-judged" : "exact-solutions-judged"]++;
                if (!res.vclass.empty())
                    break;
                if (!c03)
                {
                    // rider: the path split into single propagation steps is the same trajectory
                    oc::PathControl ip(*pc);
                    ip.interpolate();
                    judgePath(res, c, planner, ip, sol.approximate_, sol.difference_, when, "after PathControl::interpolate()", P);
                    if (!res.vclass.empty())
                        break;
                }
            }
            if (c03 && res.vclass.empty())
            {
                // resume monotonicity under the problem definition's own ranking
                ob::PlannerSolution topAfter(nullptr);
                bool has = q.pdef->getSolution(topAfter);
                if (had && !has)
                    res.violate(P + ".resume-lost-solution" + sfx, when + ": the problem definition held a solution before this solve() and holds none now");
                else if (had && has && topBefore < topAfter)
                    res.violate(P + ".resume-worsened-top-solution" + sfx, when + ": the best solution after a continued solve() ranks worse than before");
                // new-query isolation
                for (auto &s : added)
                {
                    auto *pc = dynamic_cast<oc::PathControl *>(s.path_.get());
                    if (!pc || !res.vclass.empty())
                        continue;
                    for (auto *x : pc->getStates())
                        for (auto *f : foreign)
                            if (res.vclass.empty() && c.w->ss->equalStates(x, f))
                                res.violate(P + ".state-of-previous-query-in-path" + sfx, when + ": a path reported for the new query contains a start/goal state of the previous query");
                }
                if (refRun && res.vclass.empty())
                {
                    auto refQ = world::makeQuery(c.w, plan[cur == 0 ? "query" : "query2"]);
                    ob::PlannerPtr ref = makePlanner(c, plan);
                    ref->setProblemDefinition(refQ->pdef);
                    ob::PlannerStatus rs;
                    long rEvals = 0, rAfter = 0, drawsB = 0;
                    bool rFired = false, refOk = true;
                    ob::PlannerTerminationCondition rptc([&] {
                        if (rFired)
                        {
                            if (++rAfter > 10000)
                                throw StopSolve();
                            return true;
                        }
                        if (rEvals++ >= k || ((rEvals & 63) == 0 && world::cpuSeconds() > c.w->cpuBudget))
                            rFired = true;
                        return rFired;
                    });
                    try
                    {
                        ref->setup();
                        c.w->validBudget = c.w->validCalls.load() + stepBudget;
                        world::ledger().armed = true;
                        rngfault::allDrawsOn((uint64_t)op.geti("ref_stream"));
                        rs = ref->solve(rptc);
                        drawsB = rngfault::allDrawsOff();
                    }
                    catch (world::BudgetExhausted &)
                    {
                        refOk = false;
                    }
                    catch (StopSolve &)
                    {
                        refOk = false;
                    }
                    catch (ompl::Exception &)
                    {
                        refOk = false;
                    }
                    rngfault::allDrawsOff();
                    c.w->validBudget = -1;
                    world::ledger().armed = false;
                    if (!refOk)
                    {
                        res.inconclusive = true;
                        res.probes["reference-first-solve-abandoned"]++;
                        res.trace = h;
                        sim::finishCaseNow(res);
                    }
                    res.probes["solve-after-clear-compared-with-a-first-solve"]++;
                    auto refSols = refQ->pdef->getSolutions();
                    std::string diff;
                    if ((ob::PlannerStatus::StatusType)rs != stt)
                        diff += " status '" + status.asString() + "' vs '" + rs.asString() + "'";
                    if (rEvals != evals)
                        diff += fmt(" termination-condition evaluations %ld vs %ld", evals, rEvals);
                    if (drawsA != drawsB)
                        diff += fmt(" random draws consumed %ld vs %ld", drawsA, drawsB);
                    if (refSols.size() != added.size())
                        diff += fmt(" solutions added %zu vs %zu", added.size(), refSols.size());
                    else if (!added.empty())
                    {
                        auto *pa = dynamic_cast<oc::PathControl *>(afterSols[0].path_.get());
                        auto *pb = dynamic_cast<oc::PathControl *>(refSols[0].path_.get());
                        if (pa && pb)
                        {
                            if (pa->getStateCount() != pb->getStateCount())
                                diff += fmt(" best path has %zu vs %zu states", pa->getStateCount(), pb->getStateCount());
                            else
                            {
                                for (size_t i2 = 0; i2 < pa->getStateCount(); i2++)
                                    if (!c.w->ss->equalStates(pa->getState((unsigned)i2), pb->getState((unsigned)i2)))
                                    {
                                        diff += fmt(" best paths differ from state %zu on", i2);
                                        break;
                                    }
                                if (pa->getControlDurations() != pb->getControlDurations())
                                    diff += " control durations differ";
                            }
                        }
                        if (afterSols[0].approximate_ != refSols[0].approximate_)
                            diff += " approximate flag differs";
                    }
                    if (!diff.empty())
                        res.violate(P + ".solve-after-clear-unlike-a-first-solve" + sfx,
                                    when + ": after clear() and a new problem definition, solve() differs from the first solve() of a never-used planner given the "
                                           "same query, the same k and the same random stream (cleared vs never used):" + diff);
                    refSols.clear();
                    ref.reset();
                    refQ.reset();
                }
            }
        }
        res.probes["propagator-calls"] += c.prop->calls;
        res.probes["steer-calls"] += c.prop->steers;
        res.info["validity_calls"] = Json((long)c.w->validCalls.load());
        pl.reset();
    }
    res.faults["F5-extreme-draw-burst(H1)"] += rngFaults;
    res.probes["paths-judged"] += judged;
    res.nontrivial = c20 ? true : (c03 ? !opKinds.empty() : judged > 0);
    std::string oc_;
    for (auto &x : outcomes)
        oc_ += (oc_.empty() ? "" : "+") + x;
    res.info["outcomes"] = oc_;
    res.info["paths_judged"] = Json(judged);
    if (c03)
    {
        std::string ks;
        for (auto &x : opKinds)
            ks += (ks.empty() ? "" : "+") + x;
        res.sig += "/" + ks + "/" + oc_;
    }
    res.trace = h;
    return res;
}

int main(int argc, char **argv)
{
    if (argc >= 3 && std::string(argv[1]) == "--oneshot")
    {
        g_oneshot = true;
        rngfault::install();
        return detrun::oneshot(argv[2], [](const Json &plan) {
            CtrlSim e;
            sim::Options o;
            o.prop = "C20";
            return e.runCase(o, plan);
        });
    }
    CtrlSim e;
    return sim::engineMain(e, argc, argv);
}
