// C08: every sampler keeps states inside the space; valid-state samplers that report success wrote an
// in-bounds, valid state.  The simulator owns the random stream: seed + extreme-draw bursts through H1.
#pragma once
#include "sim/runner.h"
#include "engines/rng_fault.h"

#include <ompl/base/SpaceInformation.h>
#include <ompl/base/ScopedState.h>
#include <ompl/base/StateSampler.h>
#include <ompl/base/spaces/RealVectorStateSpace.h>
#include <ompl/base/spaces/SO2StateSpace.h>
#include <ompl/base/spaces/SO3StateSpace.h>
#include <ompl/base/spaces/SE2StateSpace.h>
#include <ompl/base/spaces/SE3StateSpace.h>
#include <ompl/base/spaces/TimeStateSpace.h>
#include <ompl/base/spaces/DiscreteStateSpace.h>
#include <ompl/base/spaces/DubinsStateSpace.h>
#include <ompl/base/spaces/ReedsSheppStateSpace.h>
#include <ompl/base/spaces/OwenStateSpace.h>
#include <ompl/base/spaces/VanaStateSpace.h>
#include <ompl/base/spaces/VanaOwenStateSpace.h>
#include <ompl/base/spaces/WrapperStateSpace.h>
#include <ompl/base/spaces/special/TorusStateSpace.h>
#include <ompl/base/spaces/special/SphereStateSpace.h>
#include <ompl/base/spaces/special/MobiusStateSpace.h>
#include <ompl/base/spaces/special/KleinBottleStateSpace.h>
#include <ompl/base/samplers/UniformValidStateSampler.h>
#include <ompl/base/samplers/GaussianValidStateSampler.h>
#include <ompl/base/samplers/ObstacleBasedValidStateSampler.h>
#include <ompl/base/samplers/BridgeTestValidStateSampler.h>
#include <ompl/base/samplers/MaximizeClearanceValidStateSampler.h>
#include <ompl/base/samplers/MinimumClearanceValidStateSampler.h>

namespace c08
{
    using sim::Json;
    using sim::fmt;
    namespace ob = ompl::base;

    inline Json genSpace(sim::Rng &g, int depth)
    {
        Json s = Json::object();
        static const char *leaves[] = {"rv", "rv", "rv", "so2", "so3", "se2", "se3", "time", "discrete", "torus", "sphere",
                                       "mobius", "klein", "dubins", "rs", "owen", "vana", "vanaowen", "wrapper"};
        if (depth < 2 && g.chance(0.3))
        {
            s["t"] = "compound";
            Json c = Json::array();
            int n = (int)g.range(1, 3);
            for (int i = 0; i < n; i++)
            {
                Json ch = genSpace(g, depth + 1);
                ch["w"] = g.pick(std::vector<double>{1.0, 0.5, 2.0});
                c.push(ch);
            }
            s["c"] = c;
            return s;
        }
        std::string t = g.pick(leaves);
        // a WrapperStateSpace is generated at top level only: as a component of a compound it claims isCompound() when
        // it wraps a compound space, and StateSpace's computeLocationsHelper then down-casts it to CompoundStateSpace
        // (undefined behaviour in setup(); library defect outside the listed properties, DESIGN App. B)
        if (t == "wrapper" && depth > 0)
            t = "rv";
        s["t"] = t;
        if (t == "wrapper")
        {
            Json in = genSpace(g, 1);
            s["inner"] = in;
        }
        if (t == "rv")
            s["n"] = (long)g.range(1, 5);
        // bounds class for everything that has real-vector bounds
        static const char *bcs[] = {"ordinary", "ordinary", "negative", "degenerate", "large", "tiny"};
        s["bounds"] = g.pick(bcs);
        if (t == "discrete")
        {
            s["lo"] = (long)g.range(-5, 0);
            s["hi"] = g.chance(0.2) ? s.geti("lo") : (long)g.range(1, 9);
        }
        if (t == "time")
            s["bounded"] = true;  // (an unbounded time axis has extent 1 by convention: displacements of 1e6 then mean 1e8
                                  // resolution steps per motion check, which only burns the budget)
        // curved spaces compute curves between samples; coordinates of 1e100 are outside their numeric domain
        // (root bracketing fails, segment counts overflow), which is interpolation's business (C07/C14), not sampling's
        bool curved = t == "dubins" || t == "rs" || t == "owen" || t == "vana" || t == "vanaowen";
        if (curved && s.gets("bounds") == "large")
            s["bounds"] = "ordinary";
        return s;
    }

    inline void boundsFor(const std::string &cls, unsigned n, ob::RealVectorBounds &b)
    {
        for (unsigned i = 0; i < n; i++)
        {
            if (cls == "negative")
            {
                b.setLow(i, -100.0 - i);
                b.setHigh(i, -90.0);
            }
            else if (cls == "degenerate")
            {
                b.setLow(i, i % 2 ? -1.0 : 2.5);
                b.setHigh(i, i % 2 ? 3.0 : 2.5);  // zero width in the even dimensions
            }
            else if (cls == "large")
            {
                b.setLow(i, -1e100);
                b.setHigh(i, 1e100);
            }
            else if (cls == "tiny")
            {
                b.setLow(i, 1.0);
                b.setHigh(i, 1.0 + 1e-9);
            }
            else
            {
                b.setLow(i, -2.0);
                b.setHigh(i, 5.0 + i);
            }
        }
    }

    inline ob::StateSpacePtr build(const Json &s)
    {
        std::string t = s.gets("t");
        std::string bc = s.gets("bounds", "ordinary");
        if (t == "compound")
        {
            auto sp = std::make_shared<ob::CompoundStateSpace>();
            for (auto &c : s["c"].items())
                sp->addSubspace(build(c), c.getd("w", 1.0));
            sp->lock();
            return sp;
        }
        if (t == "wrapper")
            return std::make_shared<ob::WrapperStateSpace>(build(s["inner"]));
        if (t == "rv")
        {
            unsigned n = (unsigned)s.geti("n", 2);
            auto sp = std::make_shared<ob::RealVectorStateSpace>(n);
            ob::RealVectorBounds b(n);
            boundsFor(bc, n, b);
            sp->setBounds(b);
            return sp;
        }
        if (t == "so2")
            return std::make_shared<ob::SO2StateSpace>();
        if (t == "so3")
            return std::make_shared<ob::SO3StateSpace>();
        ob::RealVectorBounds b2(2), b3(3);
        boundsFor(bc, 2, b2);
        boundsFor(bc, 3, b3);
        if (t == "se2")
        {
            auto sp = std::make_shared<ob::SE2StateSpace>();
            sp->setBounds(b2);
            return sp;
        }
        if (t == "se3")
        {
            auto sp = std::make_shared<ob::SE3StateSpace>();
            sp->setBounds(b3);
            return sp;
        }
        if (t == "dubins")
        {
            auto sp = std::make_shared<ob::DubinsStateSpace>(0.7);
            sp->setBounds(b2);
            return sp;
        }
        if (t == "rs")
        {
            auto sp = std::make_shared<ob::ReedsSheppStateSpace>(0.7);
            sp->setBounds(b2);
            return sp;
        }
        if (t == "owen")
        {
            auto sp = std::make_shared<ob::OwenStateSpace>(0.7, 0.4);
            sp->setBounds(b3);
            return sp;
        }
        if (t == "vana")
        {
            auto sp = std::make_shared<ob::VanaStateSpace>(0.7, 0.4);
            sp->setBounds(b3);
            return sp;
        }
        if (t == "vanaowen")
        {
            auto sp = std::make_shared<ob::VanaOwenStateSpace>(0.7, 0.4);
            sp->setBounds(b3);
            return sp;
        }
        if (t == "time")
        {
            auto sp = std::make_shared<ob::TimeStateSpace>();
            if (s.getb("bounded", true))
            {
                if (bc == "degenerate")
                    sp->setBounds(3.0, 3.0);
                else if (bc == "negative")
                    sp->setBounds(-20.0, -10.0);
                else
                    sp->setBounds(0.0, 10.0);
            }
            return sp;
        }
        if (t == "discrete")
            return std::make_shared<ob::DiscreteStateSpace>((int)s.geti("lo"), (int)s.geti("hi"));
        if (t == "torus")
            return std::make_shared<ob::TorusStateSpace>(2.0, 0.5);
        if (t == "sphere")
            return std::make_shared<ob::SphereStateSpace>(1.5);
        if (t == "mobius")
            return std::make_shared<ob::MobiusStateSpace>(1.0, 2.0);
        return std::make_shared<ob::KleinBottleStateSpace>();
    }

    // harness validity: closed form on the first reals of the state; ~35% of the space invalid
    class Validity : public ob::StateValidityChecker
    {
    public:
        Validity(const ob::SpaceInformationPtr &si, int mode) : ob::StateValidityChecker(si), mode_(mode)
        {
            specs_.clearanceComputationType = ob::StateValidityCheckerSpecs::EXACT;
        }
        double field(const ob::State *s) const
        {
            std::vector<double> r;
            si_->getStateSpace()->copyToReals(r, s);
            double x = r.size() > 0 ? r[0] : 0, y = r.size() > 1 ? r[1] : 0;
            if (!std::isfinite(x) || std::fabs(x) > 1e6)
                x = 0.3;
            if (!std::isfinite(y) || std::fabs(y) > 1e6)
                y = 0.1;
            return std::sin(5 * x) + std::cos(3 * y) - 0.4;
        }
        bool isValid(const ob::State *s) const override
        {
            calls++;
            // curved spaces: motions between in-bounds states leave the bounds, so - as the library's documentation asks
            // of users - the validity predicate includes the bounds there
            if (curved && !si_->satisfiesBounds(s))
                return false;
            if (mode_ == 1)
                return true;
            if (mode_ == 2)
                return false;
            if (mode_ == 3)
            {
                // collision-free AND inside an allowed region; clearance() below measures the obstacles only, so some
                // invalid states (outside the region) have a larger clearance than some valid ones
                std::vector<double> r;
                si_->getStateSpace()->copyToReals(r, s);
                double x = r.empty() || !std::isfinite(r[0]) || std::fabs(r[0]) > 1e6 ? 0.2 : r[0];
                return field(s) < 0 && std::cos(7 * x) > -0.6;
            }
            return field(s) < 0;
        }
        double clearance(const ob::State *s) const override
        {
            return -field(s);
        }
        mutable long calls = 0;
        bool curved = false;

    private:
        int mode_;
    };

    inline Json generate(sim::Rng &g, bool thorough)
    {
        Json plan = Json::object();
        plan["kind"] = "c08";
        plan["space"] = genSpace(g, 0);
        plan["ompl_seed"] = (long)g.range(1, 1000000000);
        plan["validity"] = (long)g.pick(std::vector<double>{0, 0, 3, 3, 1, 2});
        int nops = (int)g.range(3, thorough ? 60 : 24);
        Json ops = Json::array();
        for (int i = 0; i < nops; i++)
        {
            Json op = Json::object();
            int k = (int)g.below(12);
            if (k < 3)
                op["op"] = "uniform";
            else if (k < 5)
            {
                op["op"] = "near";
                op["d"] = g.pick(std::vector<double>{0.0, 1e-9, 0.1, 1.0, 10.0, 1e3, 1e9});
            }
            else if (k < 7)
            {
                op["op"] = "gauss";
                op["sd"] = g.pick(std::vector<double>{0.0, 1e-9, 0.1, 1.0, 10.0, 1e3, 1e9});
            }
            else if (k < 10)
            {
                op["op"] = "valid";
                static const char *vs[] = {"uniform", "gaussian", "obstacle", "bridge", "maxclear", "minclear"};
                op["sampler"] = g.pick(vs);
                op["attempts"] = (long)g.pick(std::vector<double>{1, 2, 10, 100});
                op["sd"] = g.pick(std::vector<double>{0.01, 0.5, 5.0});
                op["near"] = g.chance(0.3);
                op["d"] = g.pick(std::vector<double>{0.1, 1.0, 100.0});
            }
            else
            {
                op["op"] = "enforce";
                op["scale"] = g.pick(std::vector<double>{1.0, 7.0, 1e3, 1e9, -1e9, 1e30});
                // or a state that is off by a hair (integration drift: a quaternion whose norm is wrong in the 9th digit)
                if (g.chance(0.3))
                    op["nudge"] = g.pick(std::vector<double>{2e-9, 6e-9, -4e-9, 1.5e-8, -3e-8});
            }
            if (g.chance(0.35))
                op["fault"] = rngfault::gen(g, 12);
            ops.push(op);
        }
        // (drawn last) the application narrows the bounds of a real-vector space while samplers of it are alive: "every
        // bound setting" includes the current one (only on a top-level R^n, whose bounds are the sampler's only input;
        // spaces with derived or cached bounds are left alone)
        if (plan["space"].gets("t") == "rv" && g.chance(0.5))
        {
            int n = (int)g.range(1, 2);
            for (int i = 0; i < n; i++)
            {
                Json op = Json::object();
                op["op"] = "rebound";
                op["a"] = g.pick(std::vector<double>{0.0, 0.1, 0.45});
                op["b"] = g.pick(std::vector<double>{0.0, 0.25, 0.5});
                size_t at = (size_t)g.range(0, (long)ops.size());
                ops.items().insert(ops.items().begin() + (long)at, op);
            }
        }
        plan["ops"] = ops;
        return plan;
    }

    inline sim::CaseResult run(const Json &plan)
    {
        sim::CaseResult res;
        const std::string P = "C08";
        ompl::RNG::setSeed((std::uint_fast32_t)plan.geti("ompl_seed", 1));
        ob::StateSpacePtr sp = build(plan["space"]);
        std::string st = plan["space"].gets("t");
        std::string sfx = " space=" + st;
        auto si = std::make_shared<ob::SpaceInformation>(sp);
        auto val = std::make_shared<Validity>(si, (int)plan.geti("validity"));
        {
            std::string dump = plan["space"].dump();
            for (const char *c : {"\"dubins\"", "\"rs\"", "\"owen\"", "\"vana\"", "\"vanaowen\""})
                if (dump.find(c) != std::string::npos)
                    val->curved = true;
        }
        si->setStateValidityChecker(val);
        try
        {
            si->setup();
        }
        catch (ompl::Exception &)
        {
            // zero-extent space (every component degenerate): the library refuses it in setup(); nothing to sample
            res.sig = "refused-space";
            return res;
        }
        ob::StateSamplerPtr sampler = sp->allocStateSampler();
        ob::State *cur = sp->allocState(), *center = sp->allocState(), *tmp = sp->allocState();
        rngfault::arm(Json());
        sampler->sampleUniform(center);
        uint64_t h = 1469598103934665603ULL;
        long draws = 0, faultsFired = 0, validTrue = 0, validFalse = 0, enforced = 0, rebounds = 0;
        std::string kinds;
        auto hashState = [&](const ob::State *s) {
            std::vector<double> r;
            sp->copyToReals(r, s);
            for (double d : r)
                h = sim::hashDouble(h, d);
        };
        const auto &ops = plan["ops"].items();
        for (size_t oi = 0; oi < ops.size() && res.vclass.empty(); oi++)
        {
            const Json &op = ops[oi];
            std::string k = op.gets("op");
            if (kinds.find(k) == std::string::npos)
                kinds += (kinds.empty() ? "" : "+") + k;
            bool faulty = rngfault::arm(op["fault"]);
            std::string when = fmt("op %zu (%s%s)", oi, k.c_str(), faulty ? ", extreme-draw burst" : "");
            if (k == "uniform" || k == "near" || k == "gauss")
            {
                if (k == "uniform")
                    sampler->sampleUniform(cur);
                else if (k == "near")
                    sampler->sampleUniformNear(cur, center, op.getd("d"));
                else
                    sampler->sampleGaussian(cur, center, op.getd("sd"));
                faultsFired += rngfault::disarm();
                draws++;
                if (!sp->satisfiesBounds(cur))
                {
                    std::vector<double> r;
                    sp->copyToReals(r, cur);
                    std::string vals;
                    for (double d : r)
                        vals += fmt(" %.17g", d);
                    res.violate(P + ".sample-out-of-bounds" + sfx + " sampler=" + k, when + ": sampled state violates the bounds:" + vals);
                    break;
                }
                // rider: enforceBounds leaves an in-bounds state unchanged
                sp->copyState(tmp, cur);
                sp->enforceBounds(tmp);
                if (!sp->equalStates(tmp, cur))
                    res.violate(P + ".enforce-changed-in-bounds-state" + sfx, when + ": enforceBounds() modified a state that satisfies the bounds");
                hashState(cur);
                if (oi % 3 == 0)
                    sp->copyState(center, cur);
            }
            else if (k == "rebound")
            {
                rngfault::disarm();
                auto *rv = dynamic_cast<ob::RealVectorStateSpace *>(sp.get());
                if (!rv)
                    continue;
                ob::RealVectorBounds b = rv->getBounds();
                for (size_t d = 0; d < b.low.size(); d++)
                {
                    double w = b.high[d] - b.low[d];
                    double lo = b.low[d] + op.getd("a") * w, hi = b.high[d] - op.getd("b") * w;
                    if (std::isfinite(lo) && std::isfinite(hi) && lo <= hi)
                    {
                        b.low[d] = lo;
                        b.high[d] = hi;
                    }
                }
                rv->setBounds(b);
                sp->enforceBounds(center);  // the centre of near / Gaussian sampling is a state of the space
                rebounds++;
            }
            else if (k == "valid")
            {
                std::string vs = op.gets("sampler");
                ob::ValidStateSamplerPtr v;
                if (vs == "uniform")
                    v = std::make_shared<ob::UniformValidStateSampler>(si.get());
                else if (vs == "gaussian")
                {
                    auto g = std::make_shared<ob::GaussianValidStateSampler>(si.get());
                    g->setStdDev(op.getd("sd", 0.5));
                    v = g;
                }
                else if (vs == "obstacle")
                    v = std::make_shared<ob::ObstacleBasedValidStateSampler>(si.get());
                else if (vs == "bridge")
                {
                    auto g = std::make_shared<ob::BridgeTestValidStateSampler>(si.get());
                    g->setStdDev(op.getd("sd", 0.5));
                    v = g;
                }
                else if (vs == "maxclear")
                {
                    auto g = std::make_shared<ob::MaximizeClearanceValidStateSampler>(si.get());
                    g->setNrImproveAttempts(3);
                    v = g;
                }
                else
                {
                    auto g = std::make_shared<ob::MinimumClearanceValidStateSampler>(si.get());
                    g->setMinimumObstacleClearance(0.05);
                    v = g;
                }
                v->setNrAttempts((unsigned)op.geti("attempts", 10));
                rngfault::arm(op["fault"]);  // constructing the sampler may have drawn (RNG seeds do not use H1 draws)
                bool ok = op.getb("near") ? v->sampleNear(cur, center, op.getd("d", 1.0)) : v->sample(cur);
                faultsFired += rngfault::disarm();
                if (ok)
                {
                    validTrue++;
                    if (!sp->satisfiesBounds(cur))
                    {
                        std::vector<double> r;
                        sp->copyToReals(r, cur);
                        std::string vals;
                        for (double d : r)
                            vals += fmt(" %.17g", d);
                        res.violate(P + ".valid-sampler-success-out-of-bounds" + sfx + " sampler=" + vs, when + ": returned true with a state outside the bounds:" + vals);
                    }
                    else if (!val->isValid(cur))
                        res.violate(P + ".valid-sampler-success-invalid-state" + sfx + " sampler=" + vs, when + ": returned true with an invalid state");
                    hashState(cur);
                }
                else
                    validFalse++;  // retry exhaustion is legal and claims nothing
            }
            else  // enforce: rider on displaced states
            {
                sp->copyState(cur, center);
                std::vector<double> r;
                sp->copyToReals(r, cur);
                double sc = op.getd("scale", 1.0);
                if (op.has("nudge"))
                    for (size_t i = 0; i < r.size(); i++)
                        r[i] = r[i] * (1.0 + op.getd("nudge"));
                else
                    for (size_t i = 0; i < r.size(); i++)
                        r[i] = r[i] * ((i % 2) ? sc : -sc) + (double)i;
                sp->copyFromReals(cur, r);
                rngfault::disarm();
                bool finite = true;
                std::vector<double> r2;
                sp->copyToReals(r2, cur);
                for (double d : r2)
                    if (!std::isfinite(d))
                        finite = false;
                if (!finite)
                    continue;
                sp->enforceBounds(cur);
                enforced++;
                if (!sp->satisfiesBounds(cur))
                {
                    // scaled quaternions etc. are normalised by enforceBounds; anything finite must end up in bounds
                    res.violate(P + ".enforce-bounds-left-state-out-of-bounds" + sfx, when + ": enforceBounds() on a finite state did not produce an in-bounds state");
                    break;
                }
                sp->copyState(tmp, cur);
                sp->enforceBounds(tmp);
                if (!sp->equalStates(tmp, cur))
                    res.violate(P + ".enforce-bounds-not-idempotent" + sfx, when + ": a second enforceBounds() changed the state again");
                hashState(cur);
            }
        }
        rngfault::disarm();
        sp->freeState(cur);
        sp->freeState(center);
        sp->freeState(tmp);
        res.trace = sim::hashU64(h, (uint64_t)val->calls);
        res.nontrivial = draws + validTrue > 0;
        res.sig = "c08/" + st + (st == "compound" ? fmt("%zu", plan["space"]["c"].size()) : "") + "/" + plan["space"].gets("bounds") + "/" + kinds +
                  (faultsFired ? "/rngfault" : "") + fmt("/v%ld", (long)plan.geti("validity"));
        res.faults["F5-extreme-draw-burst(H1)"] += faultsFired;
        res.probes["valid-sampler-success"] += validTrue;
        res.probes["valid-sampler-exhausted(false)"] += validFalse;
        res.probes["enforceBounds-on-displaced-state"] += enforced;
        res.probes["bounds-narrowed-with-live-samplers"] += rebounds;
        Json info = Json::object();
        info["draws"] = Json(draws);
        info["valid_true"] = Json(validTrue);
        info["valid_false"] = Json(validFalse);
        res.info = info;
        return res;
    }
}  // namespace c08
