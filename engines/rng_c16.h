// C16: constrained spaces keep sampled, interpolated, geodesic and path states on the manifold.
// Faults: F7 - the harness's Constraint reports projection failure at simulator-chosen calls (a legal
// outcome every caller must handle); F5 - extreme-draw bursts on the samplers (H1); F1 - planners on top
// are cancelled at a chosen PTC evaluation.
#pragma once
#include "sim/runner.h"
#include "engines/rng_fault.h"

#include <ompl/base/Constraint.h>
#include <ompl/base/ConstrainedSpaceInformation.h>
#include <ompl/base/ProblemDefinition.h>
#include <ompl/base/ScopedState.h>
#include <ompl/base/spaces/RealVectorStateSpace.h>
#include <ompl/base/spaces/constraint/ProjectedStateSpace.h>
#include <ompl/base/spaces/constraint/AtlasStateSpace.h>
#include <ompl/base/spaces/constraint/TangentBundleStateSpace.h>
#include <ompl/geometric/PathGeometric.h>
#include <ompl/geometric/planners/rrt/RRT.h>
#include <ompl/geometric/planners/rrt/RRTConnect.h>
#include <ompl/geometric/planners/kpiece/KPIECE1.h>
#include <ompl/geometric/planners/est/EST.h>

namespace c16
{
    using sim::Json;
    using sim::fmt;
    namespace ob = ompl::base;
    namespace og = ompl::geometric;

    // closed-form manifolds in the first three ambient coordinates (the rest is free), analytic Jacobians
    class Manifold : public ob::Constraint
    {
    public:
        Manifold(unsigned n, const std::string &kind, double tol)
          : ob::Constraint(n, kind == "circle" ? 2 : 1, tol), kind_(kind)
        {
        }
        void function(const Eigen::Ref<const Eigen::VectorXd> &x, Eigen::Ref<Eigen::VectorXd> out) const override
        {
            if (kind_ == "sphere")
                out[0] = x.head(3).norm() - 1.0;
            else if (kind_ == "torus")
            {
                double q = std::sqrt(x[0] * x[0] + x[1] * x[1]) - 2.0;
                out[0] = q * q + x[2] * x[2] - 0.25;
            }
            else if (kind_ == "plane")
                out[0] = 0.6 * x[0] + 0.8 * x[2] - 0.5;
            else  // circle = sphere and plane z = 0.3
            {
                out[0] = x.head(3).norm() - 1.0;
                out[1] = x[2] - 0.3;
            }
        }
        void jacobian(const Eigen::Ref<const Eigen::VectorXd> &x, Eigen::Ref<Eigen::MatrixXd> out) const override
        {
            out.setZero();
            if (kind_ == "sphere" || kind_ == "circle")
            {
                double nrm = std::max(1e-12, x.head(3).norm());
                for (int i = 0; i < 3; i++)
                    out(0, i) = x[i] / nrm;
                if (kind_ == "circle")
                    out(1, 2) = 1.0;
            }
            else if (kind_ == "torus")
            {
                double r = std::max(1e-12, std::sqrt(x[0] * x[0] + x[1] * x[1]));
                double q = r - 2.0;
                out(0, 0) = 2 * q * x[0] / r;
                out(0, 1) = 2 * q * x[1] / r;
                out(0, 2) = 2 * x[2];
            }
            else
            {
                out(0, 0) = 0.6;
                out(0, 2) = 0.8;
            }
        }
        // F7: projection reports failure for calls [failFrom, failFrom + failCount) since arm()
        bool project(Eigen::Ref<Eigen::VectorXd> x) const override
        {
            long i = calls_++;
            if (failCount_ > 0 && i >= failFrom_ && i < failFrom_ + failCount_)
            {
                failed_++;
                return false;
            }
            bool ok = ob::Constraint::project(x);
            if (!ok)
                natural_++;
            return ok;
        }
        long naturalFailures() const
        {
            long v = natural_;
            natural_ = 0;
            return v;
        }
        void arm(long from, long count) const
        {
            calls_ = 0;
            failFrom_ = from;
            failCount_ = count;
            failed_ = 0;
        }
        long disarm() const
        {
            failCount_ = 0;
            return failed_;
        }
        double residual(const ob::State *s) const
        {
            return distance(s);
        }

    private:
        std::string kind_;
        mutable long calls_ = 0, failFrom_ = 0, failCount_ = 0, failed_ = 0, natural_ = 0;
    };

    inline Json generate(sim::Rng &g, bool thorough)
    {
        Json plan = Json::object();
        plan["kind"] = "c16";
        static const char *mans[] = {"sphere", "sphere", "torus", "plane", "circle"};
        static const char *spaces[] = {"projected", "projected", "atlas", "atlas", "tangent"};
        plan["manifold"] = g.pick(mans);
        plan["space"] = g.pick(spaces);
        plan["n"] = (long)g.range(3, 6);
        plan["delta"] = g.pick(std::vector<double>{0.02, 0.05, 0.1, 0.3});
        plan["lambda"] = g.pick(std::vector<double>{1.5, 2.0, 5.0});
        plan["tolerance"] = g.pick(std::vector<double>{1e-3, 1e-4, 1e-6});
        plan["max_iterations"] = (long)g.pick(std::vector<double>{10, 50, 50});
        // bounds: "wide" contain the manifold with margin; "cut" slice through it
        plan["bounds"] = g.chance(0.75) ? "wide" : "cut";
        plan["ompl_seed"] = (long)g.range(1, 1000000000);
        plan["obstacle"] = g.chance(0.5);
        int nops = (int)g.range(3, thorough ? 40 : 14);
        Json ops = Json::array();
        bool planner = g.chance(0.12);
        for (int i = 0; i < nops; i++)
        {
            Json op = Json::object();
            int k = (int)g.below(13);
            if (k == 12)
            {
                // the user changes the constraint's tolerance between uses of the (stateful) space
                op["op"] = "set_tolerance";
                op["tolerance"] = g.pick(std::vector<double>{1e-3, 1e-4, 1e-5, 1e-6, 1e-7});
                ops.push(op);
                continue;
            }
            if (k < 3)
            {
                static const char *rs[] = {"uniform", "near", "gauss"};
                op["op"] = "raw";
                op["how"] = g.pick(rs);
                op["d"] = g.pick(std::vector<double>{0.01, 0.1, 1.0, 1.0, 30.0, 1e4});  // far beyond the manifold: every projection attempt fails
            }
            else if (k < 6)
            {
                op["op"] = "valid";
                op["near"] = g.chance(0.3);
                op["d"] = g.pick(std::vector<double>{0.05, 0.5});
                op["attempts"] = (long)g.pick(std::vector<double>{1, 10, 100});
            }
            else if (k < 9)
            {
                op["op"] = "interp";
                op["t"] = g.pick(std::vector<double>{0.0, 0.1, 0.5, 0.9, 1.0});
            }
            else
            {
                op["op"] = "geodesic";
                op["interpolate"] = g.chance(0.5);
            }
            if (g.chance(0.2))
            {
                Json f = Json::object();
                f["from"] = (long)g.range(0, 6);
                f["count"] = (long)g.range(1, 4);
                op["project_fails"] = f;
            }
            if (g.chance(0.2))
                op["fault"] = rngfault::gen(g, 10);
            ops.push(op);
        }
        if (planner)
        {
            Json op = Json::object();
            op["op"] = "plan";
            static const char *ps[] = {"RRT", "RRTConnect", "KPIECE1", "EST"};
            op["planner"] = g.pick(ps);
            op["k"] = (long)g.range(50, 1500);
            ops.push(op);
        }
        plan["ops"] = ops;
        return plan;
    }

    inline sim::CaseResult run(const Json &plan)
    {
        sim::CaseResult res;
        const std::string P = "C16";
        std::string man = plan.gets("manifold"), spk = plan.gets("space"), bnd = plan.gets("bounds", "wide");
        unsigned n = (unsigned)plan.geti("n", 3);
        std::string sfx = " space=" + spk;
        ompl::RNG::setSeed((std::uint_fast32_t)plan.geti("ompl_seed", 1));
        auto rv = std::make_shared<ob::RealVectorStateSpace>(n);
        double lo = -4, hi = 4;
        if (bnd == "cut")
        {
            lo = -0.8;  // slices the unit sphere / circle; the torus and the plane are cut as well
            hi = 2.2;
        }
        rv->setBounds(lo, hi);
        auto con = std::make_shared<Manifold>(n, man, plan.getd("tolerance", 1e-4));
        con->setMaxIterations((unsigned)plan.geti("max_iterations", 50));
        ob::StateSpacePtr css;
        ob::ConstrainedSpaceInformationPtr csi;
        if (spk == "projected")
        {
            css = std::make_shared<ob::ProjectedStateSpace>(rv, con);
            csi = std::make_shared<ob::ConstrainedSpaceInformation>(css);
        }
        else if (spk == "atlas")
        {
            css = std::make_shared<ob::AtlasStateSpace>(rv, con);
            csi = std::make_shared<ob::ConstrainedSpaceInformation>(css);
        }
        else
        {
            css = std::make_shared<ob::TangentBundleStateSpace>(rv, con);
            csi = std::make_shared<ob::TangentBundleSpaceInformation>(css);
        }
        auto *cs = css->as<ob::ConstrainedStateSpace>();
        cs->setDelta(plan.getd("delta", 0.05));
        cs->setLambda(plan.getd("lambda", 2.0));
        bool obstacle = plan.getb("obstacle");
        csi->setStateValidityChecker([obstacle](const ob::State *s) {
            if (!obstacle)
                return true;
            const Eigen::Map<Eigen::VectorXd> &x = *s->as<ob::ConstrainedStateSpace::StateType>();
            return (x.head(3) - Eigen::Vector3d(0.0, 1.0, 0.0)).norm() > 0.35;  // a ball sitting on the manifolds
        });
        csi->setup();
        // two on-manifold, valid, in-bounds anchor states
        auto anchor = [&](double a, double b) {
            ob::ScopedState<> s(css);
            Eigen::VectorXd x = Eigen::VectorXd::Zero(n);
            if (man == "sphere")
                x.head(3) = Eigen::Vector3d(std::cos(a) * std::cos(b), std::sin(a) * std::cos(b), std::sin(b));
            else if (man == "circle")
            {
                double r = std::sqrt(1 - 0.09);
                x.head(3) = Eigen::Vector3d(r * std::cos(a), r * std::sin(a), 0.3);
            }
            else if (man == "torus")
                x.head(3) = Eigen::Vector3d((2 + 0.5 * std::cos(b)) * std::cos(a), (2 + 0.5 * std::cos(b)) * std::sin(a), 0.5 * std::sin(b));
            else
                x.head(3) = Eigen::Vector3d(0.5 / 0.6 - 0.8 / 0.6 * b, a, b);
            static_cast<Eigen::Map<Eigen::VectorXd> &>(*s->as<ob::ConstrainedStateSpace::StateType>()) = x;
            return s;
        };
        ob::ScopedState<> A = anchor(-1.9, 0.2), B = anchor(-0.6, -0.3);
        if (!con->isSatisfied(A.get()) || !con->isSatisfied(B.get()) || !csi->satisfiesBounds(A.get()) || !csi->satisfiesBounds(B.get()) ||
            !csi->isValid(A.get()) || !csi->isValid(B.get()))
        {
            res.sig = "c16/anchors-unusable";
            return res;
        }
        if (spk != "projected")
        {
            css->as<ob::AtlasStateSpace>()->anchorChart(A.get());
            css->as<ob::AtlasStateSpace>()->anchorChart(B.get());
        }
        double tol = con->getTolerance() * (1 + 1e-9);
        ob::StateSamplerPtr raw = css->allocStateSampler();
        ob::ValidStateSamplerPtr vs = csi->allocValidStateSampler();
        ob::State *cur = css->allocState(), *from = css->allocState(), *to = css->allocState(), *tmp = css->allocState();
        css->copyState(from, A.get());
        css->copyState(to, B.get());
        css->copyState(cur, A.get());
        uint64_t h = 1469598103934665603ULL;
        long judged = 0, rawJudged = 0, rawUnderFault = 0, geodesics = 0, geodesicFail = 0, projFails = 0, rngFaults = 0, pathVertices = 0;
        std::string kinds;
        const auto &ops = plan["ops"].items();
        for (size_t oi = 0; oi < ops.size() && res.vclass.empty(); oi++)
        {
            const Json &op = ops[oi];
            std::string k = op.gets("op");
            if (kinds.find(k) == std::string::npos)
                kinds += (kinds.empty() ? "" : "+") + k;
            bool f7 = op.has("project_fails");
            if (f7)
                con->arm(op["project_fails"].geti("from"), op["project_fails"].geti("count", 1));
            bool f5 = rngfault::arm(op["fault"]);
            con->naturalFailures();
            std::string when = fmt("op %zu (%s%s%s)", oi, k.c_str(), f7 ? ", projection failure injected" : "", f5 ? ", extreme-draw burst" : "");
            if (k == "set_tolerance")
            {
                con->disarm();
                rngfault::disarm();
                con->setTolerance(op.getd("tolerance", 1e-4));
                tol = con->getTolerance() * (1 + 1e-9);
                res.probes["tolerance-changed-mid-history"]++;
                // the end points used from here on must satisfy the new tolerance themselves
                css->copyState(from, A.get());
                css->copyState(to, B.get());
                if (!con->isSatisfied(from) || !con->isSatisfied(to))
                    break;
                continue;
            }
            if (k == "raw")
            {
                std::string how = op.gets("how");
                if (how == "uniform")
                    raw->sampleUniform(cur);
                else if (how == "near")
                    raw->sampleUniformNear(cur, from, op.getd("d", 0.1));
                else
                    raw->sampleGaussian(cur, from, op.getd("d", 0.1));
                long pf = con->disarm();
                projFails += pf;
                long bursts = rngfault::disarm();
                rngFaults += bursts;
                long natural = con->naturalFailures();
                double r = con->residual(cur);
                // The StateSampler interface cannot report a failed projection, and the samplers clamp to the bounds after
                // projecting. A raw sample is therefore judged only where neither can legitimately happen: compact manifold
                // well inside the bounds, no injected or observed projection failure, no extreme-draw burst. Elsewhere it is
                // counted by cause (on-manifold samples are what the valid-state sampler, judged below, is for).
                bool compact = man != "plane";
                std::string cause = pf > 0 ? "injected-projection-failure" : (natural > 0 ? "projection-reported-failure" : (bursts > 0 ? "extreme-draw" : (bnd == "cut" || !compact ? "bounds-cut-manifold" : "")));
                // Sharper for the atlas / tangent-bundle samplers around a given state: they retry a fixed number of times
                // and then return the state they were given, so with an on-manifold centre the result is on the manifold
                // whatever failed on the way - unless the final clamp to the bounds moved it (result touches a bound).
                bool strictlyInside = true;
                {
                    const double *x = cur->as<ob::ConstrainedStateSpace::StateType>()->getState()->as<ob::RealVectorStateSpace::StateType>()->values;
                    for (unsigned i = 0; i < n; i++)
                        strictlyInside = strictlyInside && x[i] > lo + 1e-9 && x[i] < hi - 1e-9;
                }
                bool judgedDespiteFailures = false;
                bool fallbackGuaranteed = (spk == "atlas" || spk == "tangent") && how != "uniform" && bursts == 0 && strictlyInside &&
                                          con->residual(from) <= tol;
                if (fallbackGuaranteed && !cause.empty())
                {
                    res.probes["raw-samples-judged-despite-projection-failures(retry-then-fallback)"]++;
                    cause.clear();
                    judgedDespiteFailures = true;
                }
                if (!cause.empty())
                {
                    rawUnderFault++;
                    if (!(r <= tol))
                        res.probes["raw-sample-off-manifold(not judged): " + cause]++;
                }
                else if (!(r <= tol))
                    res.violate(P + ".raw-sample-off-manifold" + sfx + " manifold=" + man + " sampler=" + how,
                                when + fmt(": sampled state has constraint residual %.3g (tolerance %.3g), although %s", r, con->getTolerance(),
                                           judgedDespiteFailures ? "the sampler falls back to the on-manifold state it was given when its projection attempts fail, and the result does not touch the bounds"
                                                                 : "the manifold lies inside the bounds and no projection reported failure"));
                else
                    rawJudged++;
                h = sim::hashDouble(h, r);
            }
            else if (k == "valid")
            {
                vs->setNrAttempts((unsigned)op.geti("attempts", 10));
                bool ok = op.getb("near") ? vs->sampleNear(cur, from, op.getd("d", 0.5)) : vs->sample(cur);
                projFails += con->disarm();
                rngFaults += rngfault::disarm();
                if (ok)
                {
                    double r = con->residual(cur);
                    judged++;
                    if (!(r <= tol))
                        res.violate(P + ".valid-sample-off-manifold" + sfx, when + fmt(": valid-state sampler succeeded with constraint residual %.3g (tolerance %.3g)", r, con->getTolerance()));
                    else if (!csi->satisfiesBounds(cur) || !csi->isValid(cur))
                        res.violate(P + ".valid-sample-invalid" + sfx, when + ": valid-state sampler succeeded with an invalid or out-of-bounds state");
                    else
                    {
                        // use it as an end point of later interpolations / geodesics
                        css->copyState(oi % 2 ? to : from, cur);
                        if (spk != "projected")
                            css->as<ob::AtlasStateSpace>()->anchorChart(cur);
                    }
                    h = sim::hashDouble(h, r);
                }
            }
            else if (k == "interp")
            {
                css->interpolate(from, to, op.getd("t", 0.5), tmp);
                projFails += con->disarm();
                rngfault::disarm();
                double r = con->residual(tmp);
                judged++;
                if (!(r <= tol))
                    res.violate(P + ".interpolated-state-off-manifold" + sfx,
                                when + fmt(": interpolate(t=%g) returned a state with constraint residual %.3g (tolerance %.3g)", op.getd("t"), r, con->getTolerance()));
                h = sim::hashDouble(h, r);
            }
            else if (k == "geodesic")
            {
                std::vector<ob::State *> geo;
                bool ok = cs->discreteGeodesic(from, to, op.getb("interpolate"), &geo);
                projFails += con->disarm();
                rngfault::disarm();
                if (ok)
                {
                    geodesics++;
                    if (spk != "tangent")  // the lazy tangent-bundle variant may leave intermediate states off-manifold
                    {
                        double bound = cs->getLambda() * cs->getDelta();
                        for (size_t i = 0; i < geo.size() && res.vclass.empty(); i++)
                        {
                            double r = con->residual(geo[i]);
                            if (!(r <= tol))
                                res.violate(P + ".geodesic-state-off-manifold" + sfx, when + fmt(": state %zu of %zu of a successful geodesic has residual %.3g", i, geo.size(), r));
                            else if (i > 0 && css->distance(geo[i - 1], geo[i]) > bound * (1 + 1e-9))
                                res.violate(P + ".geodesic-step-too-long" + sfx,
                                            when + fmt(": consecutive geodesic states %zu,%zu are %.6g apart, step bound lambda*delta = %.6g", i - 1, i, css->distance(geo[i - 1], geo[i]), bound));
                        }
                        if (res.vclass.empty() && !geo.empty() && css->distance(geo.back(), to) > cs->getDelta() * (1 + 1e-9))
                            res.violate(P + ".geodesic-ends-far-from-target" + sfx,
                                        when + fmt(": successful geodesic ends %.6g from the target, step size delta = %.6g", css->distance(geo.back(), to), cs->getDelta()));
                    }
                    judged++;
                }
                else
                    geodesicFail++;
                for (auto *s : geo)
                    css->freeState(s);
                h = sim::hashU64(h, (uint64_t)ok);
            }
            else if (k == "plan")
            {
                con->disarm();
                rngfault::disarm();
                auto pdef = std::make_shared<ob::ProblemDefinition>(csi);
                pdef->setStartAndGoalStates(A, B, 0.1);
                ob::PlannerPtr pl;
                std::string pn = op.gets("planner");
                if (pn == "RRT")
                    pl = std::make_shared<og::RRT>(csi);
                else if (pn == "RRTConnect")
                    pl = std::make_shared<og::RRTConnect>(csi);
                else if (pn == "KPIECE1")
                    pl = std::make_shared<og::KPIECE1>(csi);
                else
                    pl = std::make_shared<og::EST>(csi);
                pl->setProblemDefinition(pdef);
                try
                {
                    pl->setup();
                    long evals = 0, kmax = op.geti("k", 500);
                    ob::PlannerTerminationCondition ptc([&] { return evals++ >= kmax; });
                    pl->solve(ptc);
                    res.faults["F1-cancel-at-kth-ptc-evaluation"]++;
                    for (auto &sol : pdef->getSolutions())
                    {
                        auto *pg = sol.path_->as<og::PathGeometric>();
                        for (size_t i = 0; i < pg->getStateCount() && res.vclass.empty(); i++)
                        {
                            double r = con->residual(pg->getState((unsigned)i));
                            pathVertices++;
                            if (!(r <= tol))
                                res.violate(P + ".path-vertex-off-manifold" + sfx + " planner=" + pn,
                                            when + fmt(": vertex %zu of %zu of a reported path has constraint residual %.3g", i, pg->getStateCount(), r));
                        }
                    }
                }
                catch (ompl::Exception &ex)
                {
                    res.probes["planner-on-top-refused(ompl::Exception)"]++;
                }
                pl.reset();
                judged += pathVertices > 0;
            }
        }
        con->disarm();
        rngfault::disarm();
        css->freeState(cur);
        css->freeState(from);
        css->freeState(to);
        css->freeState(tmp);
        res.trace = sim::hashU64(h, (uint64_t)judged);
        res.nontrivial = judged + rawJudged > 0;
        res.sig = "c16/" + man + "/" + spk + "/" + bnd + "/" + kinds + (projFails ? "/proj-fail" : "") + (rngFaults ? "/rngfault" : "");
        res.faults["F7-projection-reports-failure"] += projFails;
        res.faults["F5-extreme-draw-burst(H1)"] += rngFaults;
        res.probes["raw-samples-judged"] += rawJudged;
        res.probes["raw-samples-not-judged(failure-possible)"] += rawUnderFault;
        res.probes["successful-geodesics-judged"] += geodesics;
        res.probes["geodesic-reported-failure"] += geodesicFail;
        res.probes["path-vertices-judged"] += pathVertices;
        Json info = Json::object();
        info["judged"] = Json(judged);
        info["geodesics"] = Json(geodesics);
        res.info = info;
        return res;
    }
}  // namespace c16
