// Fault injection on the randomness seam (hook H1, DESIGN 2 / F5): while armed, raw draws number
// [from, from+count) of the current operation are replaced by rare-but-legal values.
#pragma once
#include "sim/json.h"
#include <ompl/util/RandomNumbers.h>
#include <cmath>
#include <cstdint>

namespace rngfault
{
    struct State
    {
        bool armed = false;
        long draw = 0;       // raw draws seen since arm()
        long from = 0, count = 0;
        int uniformKind = 0;  // 0: 0.0   1: 1-2^-53   2: 0.5   3: alternate 0 / 1-2^-53
        int normalKind = 0;   // 0: +8 sigma  1: -8 sigma  2: 0  3: alternate +-8
        long fired = 0;
    };
    inline State &state()
    {
        static State s;
        return s;
    }
    // all-draws mode: every raw draw of every ompl::RNG comes from one harness stream (two executions given the same
    // stream see the same randomness whatever RNG objects they hold and whatever those were used for before)
    struct AllDraws
    {
        bool on = false;
        uint64_t s[2] = {1, 2};
        long n = 0;
        bool haveSpare = false;
        double spare = 0;
        uint64_t next()
        {
            // xoroshiro128+
            uint64_t a = s[0], b = s[1], r = a + b;
            b ^= a;
            s[0] = ((a << 24) | (a >> 40)) ^ b ^ (b << 16);
            s[1] = (b << 37) | (b >> 27);
            return r;
        }
        double unit()
        {
            return (double)(next() >> 11) * (1.0 / 9007199254740992.0);
        }
        double normal()
        {
            if (haveSpare)
            {
                haveSpare = false;
                return spare;
            }
            double u, v, q;
            do
            {
                u = 2.0 * unit() - 1.0;
                v = 2.0 * unit() - 1.0;
                q = u * u + v * v;
            } while (q >= 1.0 || q == 0.0);
            double f = std::sqrt(-2.0 * std::log(q) / q);
            spare = v * f;
            haveSpare = true;
            return u * f;
        }
    };
    inline AllDraws &allDraws()
    {
        static AllDraws a;
        return a;
    }
    inline void allDrawsOn(uint64_t seed)
    {
        AllDraws &a = allDraws();
        a.on = true;
        a.s[0] = seed * 0x9E3779B97F4A7C15ULL + 0x1234567ULL;
        a.s[1] = (seed ^ 0xD1B54A32D192ED03ULL) * 0xBF58476D1CE4E5B9ULL + 1;
        a.n = 0;
        a.haveSpare = false;
        for (int i = 0; i < 8; i++)
            a.next();
    }
    inline long allDrawsOff()
    {
        allDraws().on = false;
        return allDraws().n;
    }
    inline bool hook(int kind, double *out)
    {
        AllDraws &a = allDraws();
        if (kind == 2)
            return a.on;
        if (a.on)
        {
            a.n++;
            *out = kind == 0 ? a.unit() : a.normal();
            return true;
        }
        State &s = state();
        if (!s.armed)
            return false;
        long i = s.draw++;
        if (i < s.from || i >= s.from + s.count)
            return false;
        s.fired++;
        if (kind == 0)
        {
            const double hi = 0.99999999999999988897769753748;
            switch (s.uniformKind)
            {
                case 0:
                    *out = 0.0;
                    break;
                case 1:
                    *out = hi;
                    break;
                case 2:
                    *out = 0.5;
                    break;
                default:
                    *out = (i & 1) ? hi : 0.0;
            }
        }
        else
        {
            switch (s.normalKind)
            {
                case 0:
                    *out = 8.0;
                    break;
                case 1:
                    *out = -8.0;
                    break;
                case 2:
                    *out = 0.0;
                    break;
                default:
                    *out = (i & 1) ? 8.0 : -8.0;
            }
        }
        return true;
    }
    inline void install()
    {
        ompl::verif::rngOverride = &hook;
    }
    // arm from a plan fault object {"from":j,"count":m,"u":k,"n":k}; returns false if there is none
    inline bool arm(const sim::Json &f)
    {
        State &s = state();
        s.draw = 0;
        s.fired = 0;
        if (!f.isObj())
        {
            s.armed = false;
            return false;
        }
        s.armed = true;
        s.from = f.geti("from");
        s.count = f.geti("count", 1);
        s.uniformKind = (int)f.geti("u");
        s.normalKind = (int)f.geti("n");
        return true;
    }
    inline long disarm()
    {
        State &s = state();
        s.armed = false;
        return s.fired;
    }
    template <class Rng>
    sim::Json gen(Rng &g, long maxFrom)
    {
        sim::Json f = sim::Json::object();
        f["from"] = (long)g.range(0, maxFrom);
        f["count"] = (long)g.range(1, 6);
        f["u"] = (long)g.below(4);
        f["n"] = (long)g.below(4);
        return f;
    }
}  // namespace rngfault
