// C12 layer A: seeded histories over ompl::PDF refined against a prefix-sum model.
// Two configurations (DESIGN C12): "exact" - dyadic weights, every partial sum exact in double, so the
// selection rule can be demanded exactly; "drift" - arbitrary weights / huge ratios, rule demanded
// within the accumulated rounding bound, memory safety demanded absolutely (ASan build).
#pragma once
#include "sim/runner.h"

#include <ompl/datastructures/PDF.h>

#include <algorithm>
#include <cmath>
#include <map>
#include <memory>
#include <numeric>

namespace dspdf
{
    using sim::Json;
    using sim::fmt;
    using Pdf = ompl::PDF<long>;

    inline Json generate(sim::Rng &g, bool thorough)
    {
        Json plan = Json::object();
        plan["kind"] = "pdf";
        bool exact = g.chance(0.6);
        plan["config"] = exact ? "exact" : "drift";
        int wclass = (int)g.below(4);
        auto weight = [&]() -> double {
            if (exact)
            {
                if (g.chance(0.2))
                    return 0.0;
                return (double)g.range(1, wclass == 0 ? 3 : 64) / 8.0;
            }
            if (g.chance(0.12))
                return 0.0;
            switch (wclass)
            {
                case 0:
                    return g.unit();
                case 1:
                    return g.logReal(1e-8, 1e8);
                case 2:
                    return g.chance(0.1) ? 1e16 : g.real(0.1, 0.3);
                default:
                    return g.logReal(1e-3, 1e3);
            }
        };
        int nops = (int)g.range(4, thorough ? 250 : 80);
        double pAdd = g.real(0.2, 0.55), pUpd = g.real(0.05, 0.3), pRm = g.real(0.05, 0.3);
        Json ops = Json::array();
        if (g.chance(0.3))
        {
            Json op = Json::object();
            op["op"] = "construct";
            Json w = Json::array();
            int n = (int)g.range(0, 20);
            for (int i = 0; i < n; i++)
                w.push(Json(weight()));
            op["w"] = w;
            ops.push(op);
        }
        for (int k = 0; k < nops; k++)
        {
            Json op = Json::object();
            double u = g.unit();
            if (u < pAdd)
            {
                op["op"] = "add";
                op["w"] = weight();
            }
            else if (u < pAdd + pUpd)
            {
                op["op"] = "update";
                op["e"] = (long)g.range(0, 1000);
                op["w"] = weight();
            }
            else if (u < pAdd + pUpd + pRm)
            {
                op["op"] = "remove";
                op["e"] = (long)g.range(0, 1000);
            }
            else if (u < pAdd + pUpd + pRm + 0.01)
                op["op"] = "clear";
            else
            {
                op["op"] = "sample";
                // r is chosen relative to the state at execution time: "b" selects an interval boundary
                // (modulo the number of elements), "d" in {-1,0,1} moves by ulps, "r" is a raw value
                int m = (int)g.below(10);
                if (m < 5)
                {
                    op["b"] = (long)g.range(0, 1000);
                    op["d"] = (long)g.range(-1, 1);
                }
                else if (m < 6)
                    op["r"] = 0.0;
                else if (m < 7)
                    op["r"] = 1.0;
                else
                    op["r"] = g.unit();
            }
            ops.push(op);
        }
        plan["ops"] = ops;
        return plan;
    }

    inline sim::CaseResult run(const std::string &prop, const Json &plan)
    {
        sim::CaseResult res;
        bool exact = plan.gets("config") == "exact";
        std::string cfg = exact ? " config=exact" : " config=drift";
        std::unique_ptr<Pdf> pdf(new Pdf());
        std::map<long, double> model;         // id -> current weight
        std::map<long, Pdf::Element *> hnd;   // id -> handle
        long nextId = 0;
        uint64_t h = 1469598103934665603ULL;
        long samples = 0, boundarySamples = 0, zeroWeightLive = 0, removesInterior = 0, updates = 0, oddRowSamples = 0;
        double driftBudget = 0;  // accumulated bound on the absolute rounding error of any stored partial sum
        double maxTotal = 0;
        const double eps = 2.220446049250313e-16;

        auto checkState = [&](size_t oi, const std::string &o) {
            if (!res.vclass.empty())
                return;
            if (pdf->size() != model.size() || pdf->empty() != model.empty())
            {
                res.violate(prop + ".size-mismatch" + cfg + " after=" + o,
                            fmt("op %zu (%s): size() = %zu, model %zu", oi, o.c_str(), pdf->size(), model.size()));
                return;
            }
            const auto &els = pdf->getElements();
            if (els.size() != model.size())
            {
                res.violate(prop + ".elements-mismatch" + cfg + " after=" + o, fmt("op %zu: getElements() size", oi));
                return;
            }
            std::map<long, int> seen;
            for (size_t k = 0; k < els.size(); k++)
            {
                long id = els[k]->data_;
                auto it = model.find(id);
                if (it == model.end() || seen[id]++ || hnd[id] != els[k] || (*pdf)[(unsigned)k] != id)
                {
                    res.violate(prop + ".elements-mismatch" + cfg + " after=" + o,
                                fmt("op %zu (%s): element order slot %zu holds id %ld which is not a live element / is "
                                    "repeated / has a different handle",
                                    oi, o.c_str(), k, id));
                    return;
                }
                if (pdf->getWeight(els[k]) != it->second)
                {
                    res.violate(prop + ".weight-mismatch" + cfg + " after=" + o,
                                fmt("op %zu (%s): getWeight(element %ld) = %.17g, model %.17g", oi, o.c_str(), id,
                                    pdf->getWeight(els[k]), it->second));
                    return;
                }
            }
        };

        const auto &ops = plan["ops"].items();
        for (size_t oi = 0; oi < ops.size() && res.vclass.empty(); oi++)
        {
            const Json &op = ops[oi];
            std::string o = op.gets("op");
            double total = 0;
            for (auto &p : model)
                total += p.second;
            maxTotal = std::max(maxTotal, total);
            if (o == "construct")
            {
                if (!model.empty())
                    continue;
                std::vector<long> d;
                std::vector<double> w;
                for (auto &x : op["w"].items())
                {
                    d.push_back(nextId++);
                    w.push_back(x.d());
                }
                pdf.reset(new Pdf(d, w));
                const auto &els = pdf->getElements();
                for (size_t k = 0; k < els.size() && k < d.size(); k++)
                {
                    model[d[k]] = w[k];
                    hnd[d[k]] = els[k];
                }
                driftBudget += eps * (double)(d.size() + 1) * std::accumulate(w.begin(), w.end(), 0.0);
            }
            else if (o == "add")
            {
                double w = op.getd("w");
                long id = nextId++;
                hnd[id] = pdf->add(id, w);
                model[id] = w;
                driftBudget += 12 * eps * (total + w);
            }
            else if (o == "update")
            {
                if (model.empty())
                    continue;
                auto it = model.begin();
                std::advance(it, op.geti("e") % (long)model.size());
                double w = op.getd("w");
                driftBudget += 12 * eps * (total + w + it->second);
                pdf->update(hnd[it->first], w);
                it->second = w;
                updates++;
            }
            else if (o == "remove")
            {
                if (model.empty())
                    continue;
                auto it = model.begin();
                std::advance(it, op.geti("e") % (long)model.size());
                const auto &els = pdf->getElements();
                if (!els.empty() && els.back()->data_ != it->first)
                    removesInterior++;
                driftBudget += 24 * eps * total;
                pdf->remove(hnd[it->first]);
                hnd.erase(it->first);
                model.erase(it);
            }
            else if (o == "clear")
            {
                pdf->clear();
                model.clear();
                hnd.clear();
                driftBudget = 0;
            }
            else if (o == "sample")
            {
                if (model.empty())
                    continue;
                const auto &els = pdf->getElements();
                std::vector<double> cum;
                double c = 0;
                bool anyZero = false;
                for (auto *e : els)
                {
                    double w = model.count(e->data_) ? model[e->data_] : 0.0;
                    if (w == 0)
                        anyZero = true;
                    c += w;
                    cum.push_back(c);
                }
                double tot = c;
                if (tot <= 0)
                    continue;  // all weights zero: no interval is non-empty, the rule says nothing
                double r;
                if (op.has("r"))
                    r = op.getd("r");
                else
                {
                    size_t b = (size_t)(op.geti("b") % (long)cum.size());
                    r = cum[b] / tot;
                    long d = op.geti("d");
                    if (d < 0)
                        r = std::nextafter(r, 0.0);
                    if (d > 0)
                        r = std::nextafter(r, 2.0);
                    r = std::min(1.0, std::max(0.0, r));
                    boundarySamples++;
                }
                if (els.size() % 2 == 1)
                    oddRowSamples++;
                if (anyZero)
                    zeroWeightLive++;
                long got = pdf->sample(r);
                samples++;
                h = sim::hashU64(h, (uint64_t)got);
                size_t gi = cum.size();
                for (size_t k = 0; k < els.size(); k++)
                    if (els[k]->data_ == got)
                        gi = k;
                if (gi == cum.size() || !model.count(got))
                {
                    res.violate(prop + ".sampled-non-member" + cfg,
                                fmt("op %zu: sample(%.17g) returned %ld which is not a live element", oi, r, got));
                    break;
                }
                double x = r * tot;  // the same product the structure forms (its stored total is exact in "exact")
                double lo = gi == 0 ? 0.0 : cum[gi - 1], hi = cum[gi];
                double w = hi - lo;
                if (exact)
                {
                    bool ok = (x > lo && x <= hi) || (x == 0 && gi == 0) ;
                    // x == 0 (r == 0): the descent keeps left; element 0 is what the rule gives for the closed left end
                    if (!ok)
                        res.violate(prop + ".wrong-element" + cfg,
                                    fmt("op %zu: sample(%.17g): r*total = %.17g but returned element #%zu of %zu with "
                                        "cumulative interval (%.17g, %.17g]",
                                        oi, r, x, gi, els.size(), lo, hi));
                    else if (model[got] == 0 && r > 0 && r < 1 && x > 0)  // x == 0: r*total underflowed, rule gives slot 0
                        res.violate(prop + ".zero-weight-drawn" + cfg,
                                    fmt("op %zu: sample(%.17g) returned an element of weight 0", oi, r));
                }
                else
                {
                    double tol = driftBudget + 64 * eps * maxTotal * (double)(els.size() + 8);
                    if (!(x >= lo - tol && x <= hi + tol))
                        res.violate(prop + ".wrong-element" + cfg,
                                    fmt("op %zu: sample(%.17g): r*total = %.17g, returned element #%zu with interval "
                                        "(%.17g, %.17g], tolerance %.3g",
                                        oi, r, x, gi, lo, hi, tol));
                    else if (w == 0 && r > 0 && r < 1 && tol < 1e-3 * tot && x > tol && x < tot - tol)
                    {
                        // a zero-weight element may only be hit through rounding right at its (empty) interval
                        if (!(std::fabs(x - lo) <= tol))
                            res.violate(prop + ".zero-weight-drawn" + cfg,
                                        fmt("op %zu: sample(%.17g) returned an element of weight 0", oi, r));
                    }
                }
            }
            checkState(oi, o);
            h = sim::hashU64(h, pdf->size());
        }
        res.trace = h;
        res.nontrivial = samples > 0 && (removesInterior > 0 || updates > 0);
        res.sig = std::string("pdf/") + (exact ? "exact" : "drift") + (removesInterior ? "/interior-rm" : "") +
                  (updates ? "/upd" : "") + (boundarySamples ? "/boundary-r" : "") + (zeroWeightLive ? "/zero-w" : "") +
                  (oddRowSamples ? "/odd-row" : "") + fmt("/ops%zu", ops.size() / 20);
        res.probes["pdf.sample-at-interval-boundary"] += boundarySamples;
        res.probes["pdf.sample-with-zero-weight-element-present"] += zeroWeightLive;
        res.probes["pdf.interior-removal"] += removesInterior;
        res.probes["pdf.sample-with-odd-element-count"] += oddRowSamples;
        Json info = Json::object();
        info["samples"] = Json(samples);
        info["updates"] = Json(updates);
        info["interior_removals"] = Json(removesInterior);
        res.info = info;
        return res;
    }
}  // namespace dspdf
