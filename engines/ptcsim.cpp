// ptcsim (C18): the real PlannerTerminationCondition classes - including the library's own periodic
// poller thread, which becomes a simulator thread sleeping on simulated time - driven by 1-3 simulated
// caller threads through histories of eval / terminate / clock jump / clock stall / predicate flip /
// solution added / solution cost reported / copy, checked against a reference model evaluated on the same
// history.  One forked child per case.
#include "sim/runner.h"
#include "sim/sched.h"
#include "engines/world.h"

#include <ompl/base/PlannerTerminationCondition.h>
#include <ompl/base/terminationconditions/IterationTerminationCondition.h>
#include <ompl/base/terminationconditions/CostConvergenceTerminationCondition.h>
#include <ompl/base/objectives/PathLengthOptimizationObjective.h>
#include <ompl/geometric/planners/rrt/RRT.h>
#include <ompl/util/Console.h>
#include <ompl/util/Time.h>

#include <atomic>
#include <memory>

using sim::Json;
using sim::fmt;
namespace ob = ompl::base;
namespace og = ompl::geometric;
namespace ss = sim::sched;

namespace
{
    // ---- generation -----------------------------------------------------------------------------------------
    struct GNode
    {
        std::string kind;
        bool hasPeriodic = false, hasIter = false;
    };

    Json genCase(sim::Rng &g, bool thorough)
    {
        Json plan = Json::object();
        if (g.chance(0.08))
        {
            // Planner::solve(double): polled form for >= 1 s, must return within duration + interval (+ slack)
            plan["kind"] = "solve_timed";
            plan["duration"] = g.pick(std::vector<double>{0.05, 0.3, 0.99, 1.0, 2.0, 5.0});
            plan["cost_us"] = (long)g.pick(std::vector<double>{1, 10, 100});
            plan["sched_seed"] = (long)g.range(1, 1000000000);
            plan["ompl_seed"] = (long)g.range(1, 1000000000);
            plan["ops"] = Json::array();
            return plan;
        }
        plan["kind"] = "ptc";
        Json sch = Json::object();
        sch["seed"] = (long)g.range(1, 1000000000);
        sch["policy"] = (long)g.below(4);
        sch["pct_depth"] = (long)g.range(1, 3);
        sch["quantum"] = (long)g.range(1, 12);
        sch["cost_us"] = (long)g.pick(std::vector<double>{1, 10, 100, 1000});
        sch["jitter_us"] = g.chance(0.3) ? (long)g.range(1, 50) : 0L;
        if (g.chance(0.2))
        {
            sch["starve_thread"] = (long)g.range(1, 4);
            sch["starve_yields"] = (long)g.range(10, 300);
        }
        plan["sched"] = sch;
        int nflags = (int)g.range(1, 3);
        plan["flags"] = nflags;
        std::vector<GNode> nodes;
        Json nj = Json::array();
        int nbase = (int)g.range(1, 5);
        bool haveConv = false;
        for (int i = 0; i < nbase; i++)
        {
            Json n = Json::object();
            GNode gn;
            int k = (int)g.below(10);
            if (k < 2)
            {
                gn.kind = "pred";
                n["flag"] = (long)g.below((uint64_t)nflags);
            }
            else if (k < 4)
            {
                gn.kind = "periodic";
                gn.hasPeriodic = true;
                n["flag"] = (long)g.below((uint64_t)nflags);
                n["period"] = g.pick(std::vector<double>{0.0005, 0.001, 0.003, 0.02, 0.05});
            }
            else if (k < 5)
            {
                gn.kind = "timed";
                gn.hasPeriodic = true;  // unknowable to the model within 1 us of its deadline and while the clock crosses it during an op
                n["duration"] = g.pick(std::vector<double>{0.0, 0.001, 0.01, 0.1, 1.0, 30.0});
            }
            else if (k < 6)
            {
                gn.kind = "timedp";
                gn.hasPeriodic = true;
                n["duration"] = g.pick(std::vector<double>{0.002, 0.01, 0.1, 1.0});
                n["interval"] = g.pick(std::vector<double>{0.001, 0.005, 0.02, 5.0});
            }
            else if (k < 8)
            {
                gn.kind = "iter";
                gn.hasIter = true;
                n["n"] = (long)g.range(0, 6);
            }
            else if (k < 9)
            {
                static const char *ks[] = {"always", "never", "exact"};
                gn.kind = g.pick(ks);
                if (gn.kind == "exact")
                    gn.hasPeriodic = true;  // its evaluation locks the problem definition: a yield point inside the op
            }
            else if (!haveConv)
            {
                gn.kind = "conv";
                gn.hasPeriodic = true;  // unknowable while a report() of another thread is in flight / right at the threshold
                haveConv = true;
                n["window"] = (long)g.range(1, 5);
                n["epsilon"] = g.pick(std::vector<double>{0.01, 0.1, 0.5});
            }
            else
                gn.kind = "never";
            n["kind"] = gn.kind;
            nodes.push_back(gn);
            nj.push(n);
        }
        int ncomb = (int)g.range(0, 4);
        for (int i = 0; i < ncomb; i++)
        {
            Json n = Json::object();
            GNode gn;
            int a = (int)g.below(nodes.size()), b = (int)g.below(nodes.size());
            if (g.chance(0.2))
            {
                gn = nodes[(size_t)a];
                gn.kind = "copy";
                n["a"] = a;
            }
            else
            {
                // a stateful (iteration) operand must not sit behind an operand whose value the model cannot know
                if (nodes[(size_t)b].hasIter && nodes[(size_t)a].hasPeriodic)
                    std::swap(a, b);
                if (nodes[(size_t)b].hasIter && nodes[(size_t)a].hasPeriodic)
                {
                    // both operands hold an iteration counter AND a value the model cannot know: any stateless node will
                    // do as the second operand (the first one itself would not: and(x, x) evaluates x twice iff x is true)
                    b = -1;
                    for (size_t j = 0; j < nodes.size() && b < 0; j++)
                        if (!nodes[j].hasIter)
                            b = (int)j;
                }
                bool asCopy = b < 0;
                if (asCopy)
                    b = a;
                gn.kind = g.chance(0.5) ? "or" : "and";
                if (asCopy)
                {
                    gn = nodes[(size_t)a];
                    gn.kind = "copy";
                    n["a"] = a;
                    n["kind"] = gn.kind;
                    nodes.push_back(gn);
                    nj.push(n);
                    continue;
                }
                gn.hasIter = nodes[(size_t)a].hasIter || nodes[(size_t)b].hasIter;
                gn.hasPeriodic = nodes[(size_t)a].hasPeriodic || nodes[(size_t)b].hasPeriodic;
                n["a"] = a;
                n["b"] = b;
            }
            n["kind"] = gn.kind;
            nodes.push_back(gn);
            nj.push(n);
        }
        plan["nodes"] = nj;
        int T = (int)g.range(1, 3);
        plan["threads"] = T;
        int nops = (int)g.range(3, thorough ? 60 : 25);
        Json ops = Json::array();
        for (int i = 0; i < nops; i++)
        {
            Json op = Json::object();
            op["t"] = (long)g.below((uint64_t)T);
            int k = (int)g.below(20);
            if (k < 9)
            {
                op["op"] = "eval";
                op["node"] = (long)g.below(nodes.size());
            }
            else if (k < 11)
            {
                op["op"] = "terminate";
                op["node"] = (long)g.below(nodes.size());
            }
            else if (k < 13)
            {
                op["op"] = "flip";
                op["flag"] = (long)g.below((uint64_t)nflags);
                op["value"] = g.chance(0.6);
            }
            else if (k < 15)
            {
                op["op"] = "advance";
                op["ms"] = g.pick(std::vector<double>{0.1, 1, 3, 20, 150, 2000, 40000});
            }
            else if (k < 16)
            {
                op["op"] = "stall";
                op["yields"] = (long)g.range(1, 40);
            }
            else if (k < 18)
            {
                op["op"] = "sleep";
                op["ms"] = g.pick(std::vector<double>{0.2, 1, 2, 10, 60});
            }
            else if (k < 19)
            {
                op["op"] = "addsol";
                op["exact"] = g.chance(0.5);
                // approximate solutions: -1 is the library's "difference unknown" default, 0 a degenerate but legal value
                op["diff"] = g.pick(std::vector<double>{-1.0, 0.0, 0.25, 1.0});
            }
            else
            {
                op["op"] = "report";
                op["cost"] = (double)g.range(1, 20) / 2.0;
            }
            ops.push(op);
        }
        plan["ops"] = ops;
        // (drawn last) the periodically evaluated predicate takes time: a yield point between reading the flag and
        // returning, so that terminate() / flips of other threads can land while the poller is inside the call
        plan["yield_in_predicate"] = g.chance(0.5);
        return plan;
    }

    // ---- reference model ----------------------------------------------------------------------------------------
    struct Range
    {
        bool lo, hi;  // the value must satisfy lo <= v <= hi
    };
    struct MNode
    {
        std::string kind;
        int impl = 0;  // nodes sharing an implementation (copies) share termination and iteration state
        int flag = 0, a = -1, b = -1;
        double period = 0, duration = 0, interval = 0, epsilon = 0;
        long n = 0, window = 0;
        long long t0 = 0;
    };
    struct Model
    {
        std::vector<MNode> nodes;
        std::vector<bool> terminated;      // per impl
        std::vector<long> iterCount;       // per impl
        std::vector<char> flags, everTrue;  // per flag
        std::vector<long long> trueSince;  // per flag: sim time since which it has been continuously true (-1: false)
        std::vector<long long> falseSince;  // per flag: sim time since which it has been continuously false (-1: true)
        bool exactSol = false, exactPending = false;  // pending: an add of an exact solution is in flight
        int pendingImpl = -1;                          // a terminate() through cost convergence is in flight
        // cost convergence (one node at most)
        double avg = 0;
        long sols = 0;
        bool convFired = false, convAmbiguous = false;

        // reference evaluation; mutates iteration counters exactly like C++ short-circuit evaluation does
        // mutate=false: evaluate again on the state after the real call returned, without counting the evaluation twice
        Range eval(int id, long long now, bool mutate = true)
        {
            MNode &n = nodes[(size_t)id];
            if (terminated[(size_t)n.impl])
                return {true, true};
            if (pendingImpl == n.impl)
                return {false, true};
            const long long band = 1000;  // 1 us: truncation of time::seconds(); not judged inside it
            if (n.kind == "pred")
                return {(bool)flags[(size_t)n.flag], (bool)flags[(size_t)n.flag]};
            if (n.kind == "periodic")
                return {false, (bool)everTrue[(size_t)n.flag]};  // safety only; liveness is judged after settling
            if (n.kind == "timed")
            {
                long long end = n.t0 + (long long)(n.duration * 1e9);
                if (now > end + band)
                    return {true, true};
                if (now < end - band)
                    return {false, false};
                return {false, true};
            }
            if (n.kind == "timedp")
            {
                long long end = n.t0 + (long long)(n.duration * 1e9);
                return {false, now > end - band};
            }
            if (n.kind == "iter")
            {
                long k = mutate ? ++iterCount[(size_t)n.impl] : iterCount[(size_t)n.impl];
                bool v = k > n.n;
                return {v, v};
            }
            if (n.kind == "always")
                return {true, true};
            if (n.kind == "never")
                return {false, false};
            if (n.kind == "exact")
                return {exactSol, exactSol || exactPending};
            if (n.kind == "conv")
            {
                // fires through terminate() (handled by `terminated`); ambiguous only right at the threshold
                if (convAmbiguous)
                    return {false, true};
                return {false, false};
            }
            if (n.kind == "or" || n.kind == "and")
            {
                Range ra = eval(n.a, now, mutate);
                bool isOr = n.kind == "or";
                // short circuit: b is evaluated iff a's value does not decide. The generator guarantees that a is exactly
                // known whenever b is stateful.
                bool aKnown = ra.lo == ra.hi;
                if (aKnown && ra.lo == isOr)
                    return {isOr, isOr};
                if (aKnown)
                    return eval(n.b, now, mutate);
                // a unknown (periodic): b has no state, evaluate it for its range
                Range rb = eval(n.b, now, mutate);
                if (isOr)
                    return {ra.lo || rb.lo, ra.hi || rb.hi};
                return {ra.lo && rb.lo, ra.hi && rb.hi};
            }
            return {false, true};
        }
        // returns the impl that this report makes terminate (-1: none); the caller marks it pending around the real call
        int report(double cost)
        {
            int fired = -1;
            // written from the header: cumulative moving average over at most `window` solutions; converged when a
            // new solution moves the average by less than a fraction epsilon of its previous value
            int id = -1;
            for (size_t i = 0; i < nodes.size(); i++)
                if (nodes[i].kind == "conv")
                    id = (int)i;
            if (id < 0)
                return -1;
            MNode &n = nodes[(size_t)id];
            sols++;
            long m = std::min(sols, n.window);
            double prev = avg;
            avg = ((double)(m - 1) * avg + cost) / (double)m;
            if (m == n.window)
            {
                double change = std::fabs(avg - prev);
                double thr = n.epsilon * prev;
                if (std::fabs(change - thr) <= 1e-12 * std::max(1.0, prev))
                    convAmbiguous = true;
                else if (change < thr)
                {
                    convFired = true;
                    fired = n.impl;
                }
            }
            return fired;
        }
    };
}  // namespace

class PtcSim : public sim::Engine
{
public:
    std::string name() const override
    {
        return "ptcsim";
    }
    bool forkPerCase() const override
    {
        return true;
    }
    long defaultCases(const sim::Options &) const override
    {
        return 100000000;
    }
    int cpuLimit(const sim::Options &) const override
    {
        return 20;
    }
    void init(const sim::Options &) override
    {
        ompl::msg::noOutputHandler();
    }
    Json generate(const sim::Options &o, uint64_t caseSeed, long) override
    {
        sim::Rng g(caseSeed);
        return genCase(g, o.thorough());
    }
    sim::CaseResult run(const sim::Options &o, const Json &plan) override;
    sim::CaseResult runSolveTimed(const sim::Options &o, const Json &plan);
    std::vector<Json> simplifications(const Json &plan) override
    {
        std::vector<Json> out;
        if (plan.gets("kind") != "ptc")
            return out;
        if (plan.geti("threads") > 1)
        {
            Json p = plan;
            p["threads"] = plan.geti("threads") - 1;
            for (auto &op : p["ops"].items())
                op["t"] = op.geti("t") % (plan.geti("threads") - 1);
            out.push_back(p);
        }
        if (plan["sched"].geti("policy") != 3)
        {
            Json p = plan;
            p["sched"]["policy"] = 3;
            out.push_back(p);
        }
        if (plan["sched"].has("starve_thread"))
        {
            Json p = plan;
            p["sched"].erase("starve_thread");
            p["sched"].erase("starve_yields");
            out.push_back(p);
        }
        return out;
    }
    std::string rule(const sim::Options &) const override
    {
        return "case = 1-5 base conditions (scripted predicate, periodic predicate with the library's real poller thread, "
               "timed, timed-with-interval, iteration count, always, never, exact-solution, cost-convergence) + 0-4 "
               "or/and/copy combinators, driven by 1-3 simulated caller threads through 3-25 (quick) ops (eval, "
               "terminate from another thread, predicate flip, clock jump, clock stall, sleep, add solution, report "
               "solution cost) under a seeded scheduler (random / PCT / round-robin / run-to-block, optional bounded "
               "starvation) and simulated clock; every eval is compared with a reference model evaluated on the same "
               "history, periodic forms for safety during the history and for liveness after a settle of one period; "
               "8% of cases run Planner::solve(double) on an infeasible world under the simulated clock. non-trivial = "
               "at least one eval of a non-constant condition after a terminate / flip / clock fault; distinct = "
               "distinct (node kinds, op kinds, #threads, policy) signatures";
    }
    std::vector<std::string> realComponents(const sim::Options &) const override
    {
        return {"PlannerTerminationCondition (incl. its periodic evaluation thread)", "plannerOr/AndTerminationCondition",
                "timedPlannerTerminationCondition (both forms)", "IterationTerminationCondition",
                "exactSolnPlannerTerminationCondition", "CostConvergenceTerminationCondition", "ProblemDefinition",
                "Planner::solve(double) + geometric::RRT", "ompl::time", "std::thread / std::this_thread::sleep_for"};
    }
    std::vector<std::string> stubComponents(const sim::Options &) const override
    {
        return {"wall clock (clock_gettime interposed: simulated time)", "sleeping (nanosleep interposed)",
                "thread scheduling (pthread_create/join/mutex interposed: seeded serialising scheduler)",
                "predicates (harness flags)"};
    }
    std::vector<std::string> assumptions(const sim::Options &) const override
    {
        return {"forward clock jumps and stalls only: a backward step of the system clock (which ompl::time, being "
                "system_clock, would follow) is outside the property's quantifier and not injected here",
                "caller-thread ops are atomic between yield points (the PTC calls contain none); concurrency comes from "
                "the library's poller threads and from the order in which the scheduler interleaves the callers' ops",
                "timed conditions are not judged within 1 us of their deadline (time::seconds() truncation)"};
    }
};

sim::CaseResult PtcSim::runSolveTimed(const sim::Options &, const Json &plan)
{
    sim::CaseResult res;
    double d = plan.getd("duration");
    ompl::RNG::setSeed((std::uint_fast32_t)plan.geti("ompl_seed", 1));
    Json wd = Json::object();
    wd["space"] = "rv";
    wd["dim"] = 2;
    Json ob1 = Json::object();  // a wall that separates start and goal: infeasible
    ob1["t"] = "box";
    ob1["lo"] = Json::arrayOf(std::vector<double>{4.9, -1.0});
    ob1["hi"] = Json::arrayOf(std::vector<double>{5.1, 11.0});
    wd["obstacles"] = Json::array();
    wd["obstacles"].push(ob1);
    auto w = world::build(wd);
    w->onValidityCall = [] { ss::yield(); };
    Json qj = Json::object();
    qj["starts"] = Json::array();
    qj["starts"].push(Json::arrayOf(std::vector<double>{1.0, 5.0}));
    Json goal = Json::object();
    goal["type"] = "state";
    goal["threshold"] = 0.1;
    goal["states"] = Json::array();
    goal["states"].push(Json::arrayOf(std::vector<double>{9.0, 5.0}));
    qj["goal"] = goal;
    auto q = world::makeQuery(w, qj);
    auto planner = std::make_shared<og::RRT>(w->si);
    planner->setProblemDefinition(q->pdef);
    planner->setup();
    ss::Config cfg;
    cfg.seed = (uint64_t)plan.geti("sched_seed", 1);
    cfg.costNs = std::max<long long>(plan.geti("cost_us", 10) * 1000, (long long)(d * 1e9 / 200000));  // <= 2e5 yields
    cfg.policy = ss::RANDOM;
    ss::onDeadlock = [&](const std::string &what) {
        res.violate("C18.deadlock kind=solve-timed", what);
        sim::finishCaseNow(res);
    };
    ss::start(cfg);
    long long t0 = ss::nowNs();
    ob::PlannerStatus st = planner->ob::Planner::solve(d);
    long long t1 = ss::nowNs();
    ss::Stats s = ss::stop();
    double el = (double)(t1 - t0) / 1e9;
    // solve(double): plain timed condition below 1 s, polled every min(duration/100, 0.1) s from 1 s on
    double interval = d < 1.0 ? 0.0 : std::min(d / 100.0, 0.1);
    double slack = 0.005 + 2000 * (double)cfg.costNs / 1e9;  // poller granularity + one planner iteration
    if (el < d - 1e-6)
        res.violate("C18.solve-timed-returned-early", fmt("solve(%g) returned after %.6f simulated seconds", d, el));
    else if (el > d + interval + slack)
        res.violate("C18.solve-timed-returned-late",
                    fmt("solve(%g) on an infeasible world returned after %.6f simulated seconds (interval %.3g)", d, el, interval));
    if ((ob::PlannerStatus::StatusType)st == ob::PlannerStatus::EXACT_SOLUTION)
        res.violate("C18.solve-timed-solved-infeasible", "exact solution on an infeasible world");
    res.trace = sim::hashU64(sim::hashDouble(1469598103934665603ULL, el), s.scheduleHash);
    res.simSeconds = s.simSeconds;
    res.interleavings.push_back(s.scheduleHash);
    res.nontrivial = true;
    res.sig = fmt("solve_timed/d%g/%s", d, d < 1.0 ? "plain" : "polled");
    res.faults["F3-simulated-clock"]++;
    Json info = Json::object();
    info["elapsed_sim_s"] = el;
    info["threads"] = Json(s.threads);
    res.info = info;
    planner.reset();
    q.reset();
    w.reset();
    return res;
}

sim::CaseResult PtcSim::run(const sim::Options &o, const Json &plan)
{
    if (plan.gets("kind") == "solve_timed")
        return runSolveTimed(o, plan);
    sim::CaseResult res;
    const Json &sj = plan["sched"];
    ss::Config cfg;
    cfg.seed = (uint64_t)sj.geti("seed", 1);
    cfg.policy = (int)sj.geti("policy", 0);
    cfg.pctDepth = (int)sj.geti("pct_depth", 2);
    cfg.pctHorizon = 400;
    cfg.quantum = sj.geti("quantum", 4);
    cfg.costNs = sj.geti("cost_us", 10) * 1000;
    cfg.costJitterNs = sj.geti("jitter_us", 0) * 1000;
    cfg.starveThread = sj.has("starve_thread") ? (int)sj.geti("starve_thread") : -1;
    cfg.starveYields = sj.geti("starve_yields", 0);
    cfg.maxYields = 3000000;

    Json wd = Json::object();
    wd["space"] = "rv";
    wd["dim"] = 2;
    auto w = world::build(wd);
    auto pdef = std::make_shared<ob::ProblemDefinition>(w->si);
    pdef->setOptimizationObjective(std::make_shared<ob::PathLengthOptimizationObjective>(w->si));

    int nflags = (int)plan.geti("flags", 1);
    std::vector<std::unique_ptr<std::atomic<bool>>> flags;
    for (int i = 0; i < nflags; i++)
        flags.emplace_back(new std::atomic<bool>(false));
    std::vector<long> fnCalls((size_t)nflags, 0);
    const bool yieldInPredicate = plan.getb("yield_in_predicate");
    long flipCount = 0;  // flips applied so far (threads run one at a time)

    Model M;
    M.flags.assign((size_t)nflags, 0);
    M.everTrue.assign((size_t)nflags, 0);
    M.trueSince.assign((size_t)nflags, -1);
    M.falseSince.assign((size_t)nflags, 0);

    ss::onDeadlock = [&](const std::string &what) {
        res.violate("C18.deadlock", what);
        sim::finishCaseNow(res);
    };
    ss::onBudget = [&]() {
        res.inconclusive = true;
        sim::finishCaseNow(res);
    };
    ss::start(cfg);  // from here on every thread the library creates is a simulator thread

    // build the conditions
    std::vector<std::unique_ptr<ob::PlannerTerminationCondition>> ptc;
    std::string kinds;
    const auto &nodes = plan["nodes"].items();
    for (size_t i = 0; i < nodes.size(); i++)
    {
        const Json &n = nodes[i];
        MNode m;
        m.kind = n.gets("kind");
        m.impl = (int)M.terminated.size();
        m.flag = (int)n.geti("flag", 0) % nflags;
        m.period = n.getd("period");
        m.duration = n.getd("duration");
        m.interval = n.getd("interval");
        m.n = n.geti("n");
        m.window = n.geti("window", 1);
        m.epsilon = n.getd("epsilon");
        m.a = (int)n.geti("a", -1);
        m.b = (int)n.geti("b", -1);
        m.t0 = ss::nowNs();
        std::atomic<bool> *f = flags[(size_t)m.flag].get();
        long *calls = &fnCalls[(size_t)m.flag];
        if (m.kind == "pred")
            ptc.emplace_back(new ob::PlannerTerminationCondition([f] { return f->load(); }));
        else if (m.kind == "periodic")
            ptc.emplace_back(new ob::PlannerTerminationCondition(
                [f, calls, yieldInPredicate] {
                    ++*calls;
                    bool v = f->load();
                    if (yieldInPredicate)
                        ss::yield();
                    return v;
                },
                m.period));
        else if (m.kind == "timed")
            ptc.emplace_back(new ob::PlannerTerminationCondition(ob::timedPlannerTerminationCondition(m.duration)));
        else if (m.kind == "timedp")
            ptc.emplace_back(
                new ob::PlannerTerminationCondition(ob::timedPlannerTerminationCondition(m.duration, m.interval)));
        else if (m.kind == "iter")
        {
            ob::IterationTerminationCondition itc((unsigned)m.n);
            ptc.emplace_back(new ob::PlannerTerminationCondition(itc));
        }
        else if (m.kind == "always")
            ptc.emplace_back(new ob::PlannerTerminationCondition(ob::plannerAlwaysTerminatingCondition()));
        else if (m.kind == "never")
            ptc.emplace_back(new ob::PlannerTerminationCondition(ob::plannerNonTerminatingCondition()));
        else if (m.kind == "exact")
            ptc.emplace_back(new ob::PlannerTerminationCondition(ob::exactSolnPlannerTerminationCondition(pdef)));
        else if (m.kind == "conv")
            ptc.emplace_back(new ob::CostConvergenceTerminationCondition(pdef, (size_t)m.window, m.epsilon));
        else if (m.kind == "copy")
        {
            m.impl = M.nodes[(size_t)m.a].impl;
            MNode src = M.nodes[(size_t)m.a];
            int impl = m.impl;
            int a = m.a;
            m = src;
            m.impl = impl;
            (void)a;
            ptc.emplace_back(new ob::PlannerTerminationCondition(*ptc[(size_t)n.geti("a")]));
        }
        else if (m.kind == "or")
            ptc.emplace_back(new ob::PlannerTerminationCondition(
                ob::plannerOrTerminationCondition(*ptc[(size_t)m.a], *ptc[(size_t)m.b])));
        else
            ptc.emplace_back(new ob::PlannerTerminationCondition(
                ob::plannerAndTerminationCondition(*ptc[(size_t)m.a], *ptc[(size_t)m.b])));
        if (m.impl == (int)M.terminated.size())
        {
            M.terminated.push_back(false);
            M.iterCount.push_back(0);
        }
        M.nodes.push_back(m);
        kinds += (kinds.empty() ? "" : ",") + n.gets("kind");
        ss::yield();
    }

    // the callers
    int T = (int)plan.geti("threads", 1);
    const auto &ops = plan["ops"].items();
    uint64_t h = 1469598103934665603ULL;
    long evals = 0, interesting = 0, terminates = 0, crossThreadTerminates = 0;
    bool disturbed = false;
    std::string opKinds;
    std::vector<int> lastToucher(M.nodes.size(), -1);
    ob::ReportIntermediateSolutionFn reportCb;
    auto doOp = [&](size_t oi, int tid) {
        const Json &op = ops[oi];
        std::string k = op.gets("op");
        long long now = ss::nowNs();
        if (getenv("VERIF_DEBUG"))
            fprintf(stderr, "op %zu tid %d self %d kind %s now %lld exact(model %d)\n", oi, tid, ss::self(), k.c_str(), now, (int)M.exactSol);
        if (opKinds.find(k) == std::string::npos)
            opKinds += (opKinds.empty() ? "" : ",") + k;
        if (k == "eval")
        {
            int id = (int)(op.geti("node") % (long)M.nodes.size());
            // the real call is not atomic (evaluating an exact-solution condition locks the problem definition, which
            // is a yield point): the value must agree with the model state at invocation or at return
            Range r = M.eval(id, now, true);
            long flips0 = flipCount;
            bool v = (*ptc[(size_t)id])();
            Range r2 = M.eval(id, ss::nowNs(), false);
            r.lo = r.lo && r2.lo;
            r.hi = r.hi || r2.hi;
            if (flipCount - flips0 >= 2)
            {
                // two or more flips of other threads landed inside this call: a flag may have held a value in between that
                // neither the state at invocation nor the state at return shows (true -> false -> true); flags are the only
                // non-monotone part of the model state, so only then is the call not judged
                r.lo = false;
                r.hi = true;
                res.probes["eval-overlapped-by-two-or-more-flips(not judged)"]++;
            }
            evals++;
            if (disturbed && M.nodes[(size_t)id].kind != "always" && M.nodes[(size_t)id].kind != "never")
                interesting++;
            h = sim::hashU64(h, (uint64_t)(oi * 4 + (size_t)v));
            if ((v && !r.hi) || (!v && r.lo))
                res.violate("C18.eval-mismatch kind=" + M.nodes[(size_t)id].kind,
                            fmt("op %zu (thread %d, t=%.6f s): eval of node %d (%s) returned %d, the reference model requires %s",
                                oi, tid, (double)(now - cfg.epochNs) / 1e9, id, M.nodes[(size_t)id].kind.c_str(), (int)v,
                                r.lo ? "true" : "false"));
            if (lastToucher[(size_t)id] >= 0 && lastToucher[(size_t)id] != tid)
                res.probes["eval-after-terminate-from-another-thread"]++;
        }
        else if (k == "terminate")
        {
            int id = (int)(op.geti("node") % (long)M.nodes.size());
            ptc[(size_t)id]->terminate();
            M.terminated[(size_t)M.nodes[(size_t)id].impl] = true;
            lastToucher[(size_t)id] = tid;
            terminates++;
            disturbed = true;
            res.faults["F2-terminate-request"]++;
        }
        else if (k == "flip")
        {
            int f = (int)(op.geti("flag") % nflags);
            bool v = op.getb("value");
            flags[(size_t)f]->store(v);
            flipCount++;
            M.flags[(size_t)f] = v;
            if (v)
            {
                M.everTrue[(size_t)f] = 1;
                if (M.trueSince[(size_t)f] < 0)
                    M.trueSince[(size_t)f] = now;
                M.falseSince[(size_t)f] = -1;
            }
            else
            {
                M.trueSince[(size_t)f] = -1;
                if (M.falseSince[(size_t)f] < 0)
                    M.falseSince[(size_t)f] = now;
            }
            disturbed = true;
        }
        else if (k == "advance")
        {
            ss::advanceClock((long long)(op.getd("ms") * 1e6));
            res.faults["F3-clock-forward-jump"]++;
            disturbed = true;
        }
        else if (k == "stall")
        {
            ss::stallClock(op.geti("yields"));
            res.faults["F3-clock-stall"]++;
        }
        else if (k == "sleep")
        {
            struct timespec ts;
            long long ns = (long long)(op.getd("ms") * 1e6);
            ts.tv_sec = ns / 1000000000LL;
            ts.tv_nsec = ns % 1000000000LL;
            nanosleep(&ts, nullptr);
        }
        else if (k == "addsol")
        {
            auto path = std::make_shared<og::PathGeometric>(w->si);
            ob::ScopedState<> a(w->ss);
            a[0] = 1;
            a[1] = 1;
            path->append(a.get());
            bool exact = op.getb("exact");
            if (exact)
                M.exactPending = true;
            pdef->addSolutionPath(path, !exact, exact ? 0.0 : op.getd("diff", 1.0), "sim");
            if (exact)
            {
                M.exactSol = true;
                M.exactPending = false;
            }
            disturbed = true;
        }
        else if (k == "report")
        {
            // planners fetch the callback once per solve() and keep calling that copy; so does the harness
            if (!reportCb)
                reportCb = pdef->getIntermediateSolutionCallback();
            if (reportCb)
            {
                int fires = M.report(op.getd("cost"));
                M.pendingImpl = fires;
                reportCb(nullptr, std::vector<const ob::State *>(), ob::Cost(op.getd("cost")));
                if (fires >= 0)
                    M.terminated[(size_t)fires] = true;
                M.pendingImpl = -1;
                disturbed = true;
            }
        }
    };
    std::vector<int> tids;
    for (int t = 1; t < T; t++)
        tids.push_back(ss::spawn([&, t] {
            for (size_t oi = 0; oi < ops.size(); oi++)
                if ((int)ops[oi].geti("t") % T == t)
                {
                    ss::yield();
                    if (res.vclass.empty())
                        doOp(oi, t);
                }
        }));
    for (size_t oi = 0; oi < ops.size(); oi++)
        if ((int)ops[oi].geti("t") % T == 0)
        {
            ss::yield();
            if (res.vclass.empty())
                doOp(oi, 0);
        }
    for (int t : tids)
        ss::join(t);

    // settle, then judge the periodic forms for liveness: "no later than one period afterwards". (Not with a predicate that
    // yields inside: "one period" presumes an instantaneous predicate and pollers that are not kept from running by
    // another poller that is always runnable; those cases judge the safety clauses op by op only.)
    if (res.vclass.empty() && !yieldInPredicate)
    {
        double maxPeriod = 0;
        for (auto &n : M.nodes)
            maxPeriod = std::max(maxPeriod, std::max(n.period, std::min(n.interval, n.duration)));
        if (maxPeriod > 0)
        {
            struct timespec ts;
            long long ns = (long long)(maxPeriod * 1e9) + 5000000;  // one period + 5 ms for the poller's 1 ms steps
            ts.tv_sec = ns / 1000000000LL;
            ts.tv_nsec = ns % 1000000000LL;
            nanosleep(&ts, nullptr);
            long long now = ss::nowNs();
            for (size_t i = 0; i < M.nodes.size() && res.vclass.empty(); i++)
            {
                MNode &n = M.nodes[i];
                bool v;
                if (n.kind == "periodic")
                {
                    v = (*ptc[i])();
                    bool term = M.terminated[(size_t)n.impl];
                    // the predicate has been constant since before the settle began
                    bool mustTrue = term || (M.flags[(size_t)n.flag] && M.trueSince[(size_t)n.flag] >= 0 &&
                                             now - M.trueSince[(size_t)n.flag] > (long long)(n.period * 1e9) + 4000000);
                    bool mustFalse = !term && !M.everTrue[(size_t)n.flag];
                    // predicate false for longer than a period: the reported value must have followed it down
                    bool falseLong = !term && !M.flags[(size_t)n.flag] && M.falseSince[(size_t)n.flag] >= 0 &&
                                     now - M.falseSince[(size_t)n.flag] > (long long)(n.period * 1e9) + 4000000;
                    if (mustTrue && !v)
                        res.violate("C18.periodic-not-true-one-period-after-predicate",
                                    fmt("node %zu: predicate true for %.4f s (period %.4f s) but eval() is false after settling",
                                        i, (double)(now - M.trueSince[(size_t)n.flag]) / 1e9, n.period));
                    else if (mustFalse && v)
                        res.violate("C18.periodic-true-without-cause", fmt("node %zu: eval() true although the predicate was never true and terminate() was never called", i));
                    else if (falseLong && v)
                        res.violate("C18.periodic-still-true-one-period-after-predicate-went-false",
                                    fmt("node %zu: predicate false for %.4f s (period %.4f s), terminate() never called, but eval() is true after settling",
                                        i, (double)(now - M.falseSince[(size_t)n.flag]) / 1e9, n.period));
                    res.probes["periodic-followed-predicate-down-judged"] += falseLong && M.everTrue[(size_t)n.flag];
                    res.probes["periodic-liveness-judged"] += mustTrue;
                }
                else if (n.kind == "timedp")
                {
                    v = (*ptc[i])();
                    long long end = n.t0 + (long long)(n.duration * 1e9);
                    double iv = std::min(n.interval, n.duration);
                    bool term = M.terminated[(size_t)n.impl];
                    if (!term && now > end + (long long)(iv * 1e9) + 4000000 && !v)
                        res.violate("C18.timed-interval-not-true-after-deadline",
                                    fmt("node %zu: %.4f s past the deadline (interval %.4f s) but eval() is false", i, (double)(now - end) / 1e9, iv));
                    else if (!term && now < end - 1000 && v)
                        res.violate("C18.timed-interval-true-before-deadline", fmt("node %zu: eval() true %.6f s before the deadline", i, (double)(end - now) / 1e9));
                }
            }
        }
    }
    // destroy the conditions (joins the poller threads), then stop
    ptc.clear();
    ss::Stats s = ss::stop();
    long calls = 0;
    for (long c : fnCalls)
        calls += c;
    res.trace = sim::hashU64(h, s.scheduleHash);
    res.simSeconds = s.simSeconds;
    res.interleavings.push_back(s.scheduleHash);
    res.nontrivial = interesting > 0;
    res.sig = kinds + "|" + opKinds + fmt("|T%d|p%d", T, cfg.policy);
    res.faults["F4-scheduler-switches"] += s.switches;
    if (s.starved)
        res.faults["F4-bounded-starvation"] += s.starved;
    res.probes["poller-threads"] += s.threads - T;
    res.probes["periodic-functor-invocations"] += calls;
    res.probes["evals"] += evals;
    res.probes["cost-convergence-fired"] += M.convFired;
    Json info = Json::object();
    info["evals"] = Json(evals);
    info["threads_total"] = Json(s.threads);
    info["yields"] = Json(s.yields);
    info["sim_s"] = s.simSeconds;
    res.info = info;
    pdef.reset();
    w.reset();
    return res;
}

int main(int argc, char **argv)
{
    PtcSim e;
    return sim::engineMain(e, argc, argv);
}
