// iosim (C09): state sets and planner-data graphs (geometric and with controls) over generated, nested
// state spaces are stored through a simulated output stream and loaded back through a simulated input
// stream under a fault plan: truncation at EVERY byte offset of the archive (enumerated), short reads,
// read error at an offset, disk-full on the write side, overwritten marker, archive of a different space.
// Fault-free configuration: everything must come back equal.  Faulted configuration: the load must be
// REPORTED (false / error message) and whatever the object then holds must be an exact prefix of the
// original; "silently accepted" is the violation.  In-process, ASan build.
#include "sim/runner.h"

#include <ompl/base/StateStorage.h>
#include <ompl/base/PlannerData.h>
#include <ompl/base/PlannerDataStorage.h>
#include <ompl/base/SpaceInformation.h>
#include <ompl/base/ScopedState.h>
#include <ompl/base/spaces/RealVectorStateSpace.h>
#include <ompl/base/spaces/SO2StateSpace.h>
#include <ompl/base/spaces/SO3StateSpace.h>
#include <ompl/base/spaces/SE2StateSpace.h>
#include <ompl/base/spaces/SE3StateSpace.h>
#include <ompl/base/spaces/TimeStateSpace.h>
#include <ompl/base/spaces/DiscreteStateSpace.h>
#include <ompl/control/PlannerData.h>
#include <ompl/control/PlannerDataStorage.h>
#include <ompl/control/SpaceInformation.h>
#include <ompl/control/spaces/RealVectorControlSpace.h>
#include <ompl/util/Console.h>
#include <ompl/util/RandomNumbers.h>

#include <algorithm>
#include <cstring>
#include <iostream>
#include <streambuf>

#include <boost/serialization/export.hpp>
// documented user duty (control/PlannerData.h): export a GUID for the control edge class
BOOST_CLASS_EXPORT(ompl::control::PlannerDataEdgeControl);

using sim::Json;
using sim::fmt;
namespace ob = ompl::base;
namespace oc = ompl::control;

namespace
{
    // ---- simulated streams -------------------------------------------------------------------------------------
    class OutBuf : public std::streambuf
    {
    public:
        std::string data;
        long failAt = -1;  // "disk full": the write that would pass this many bytes fails
    protected:
        int_type overflow(int_type c) override
        {
            if (c == traits_type::eof())
                return traits_type::not_eof(c);
            if (failAt >= 0 && (long)data.size() >= failAt)
                return traits_type::eof();
            data.push_back((char)c);
            return c;
        }
        std::streamsize xsputn(const char *s, std::streamsize n) override
        {
            std::streamsize w = n;
            if (failAt >= 0)
                w = std::max<std::streamsize>(0, std::min<std::streamsize>(n, failAt - (long)data.size()));
            data.append(s, (size_t)w);
            return w;
        }
    };
    class InBuf : public std::streambuf
    {
    public:
        InBuf(const std::string &d, long end, long chunk, bool throwAtEnd)
          : d_(d), end_(std::min<long>(end, (long)d.size())), chunk_(chunk), throw_(throwAtEnd)
        {
        }
        long refills = 0;

    protected:
        int_type underflow() override
        {
            if (pos_ >= end_)
            {
                if (throw_ && end_ < (long)d_.size())
                    throw std::ios_base::failure("simulated read error");
                return traits_type::eof();
            }
            long n = std::min<long>(chunk_, end_ - pos_);  // short read: at most `chunk_` bytes per refill
            memcpy(buf_, d_.data() + pos_, (size_t)n);
            pos_ += n;
            refills++;
            setg(buf_, buf_, buf_ + n);
            return traits_type::to_int_type(buf_[0]);
        }

    private:
        const std::string &d_;
        long pos_ = 0, end_, chunk_;
        bool throw_;
        char buf_[4096];
    };

    // ---- log capture ("reported") ------------------------------------------------------------------------------
    class Capture : public ompl::msg::OutputHandler
    {
    public:
        void log(const std::string &text, ompl::msg::LogLevel level, const char *, int) override
        {
            if (level >= ompl::msg::LOG_WARN)
                reports++;
            if (getenv("VERIF_DEBUG"))
                fprintf(stderr, "LOG[%d] %s\n", (int)level, text.c_str());
        }
        long reports = 0;
    };
    Capture g_capture;

    // ---- spaces ------------------------------------------------------------------------------------------------
    Json genSpace(sim::Rng &g, int depth)
    {
        Json s = Json::object();
        int k = (int)g.below(depth >= 2 ? 7 : 10);
        if (k < 2)
        {
            s["t"] = "rv";
            s["n"] = (long)g.range(1, 4);
        }
        else if (k < 3)
            s["t"] = "so2";
        else if (k < 4)
            s["t"] = "so3";
        else if (k < 5)
            s["t"] = g.chance(0.5) ? "se2" : "se3";
        else if (k < 6)
            s["t"] = "time";
        else if (k < 7)
        {
            s["t"] = "discrete";
            s["lo"] = (long)g.range(-5, 0);
            s["hi"] = (long)g.range(1, 9);
        }
        else
        {
            s["t"] = "compound";
            Json c = Json::array();
            int n = (int)g.range(1, 3);
            bool allDiscrete = g.chance(0.15);  // a compound without a single real value (e.g. gear x mode)
            for (int i = 0; i < n; i++)
            {
                Json ch = genSpace(g, depth + 1);
                if (allDiscrete)
                {
                    ch = Json::object();
                    ch["t"] = "discrete";
                    ch["lo"] = (long)g.range(-5, 0);
                    ch["hi"] = (long)g.range(1, 9);
                }
                ch["w"] = g.pick(std::vector<double>{1.0, 0.5, 2.0, 0.125});
                c.push(ch);
            }
            s["c"] = c;
        }
        return s;
    }
    // the harness's own structural signature of a generated space (type and dimension of every node, arity of the
    // compounds): what makes two spaces "different" for the wrong-space fault is decided here, not by asking the library
    std::string ownSignature(const Json &s)
    {
        std::string t = s.gets("t");
        if (t == "rv")
            return "rv" + std::to_string(s.geti("n", 2));
        if (t != "compound")
            return t;
        std::string r = "c[";
        for (auto &c : s["c"].items())
            r += ownSignature(c) + ",";
        return r + "]";
    }
    // a near twin: one leaf replaced by a space of another type with the same dimension and serialization length
    // (R^1 / SO(2) / time: 1 value, 8 bytes; R^3 / SE(2): 3 values, 24 bytes); false if the space has no such leaf
    bool twinLeaf(sim::Rng &g, Json &s, int &budget)
    {
        std::string t = s.gets("t");
        if (t == "compound")
        {
            for (auto &c : s["c"].items())
                if (twinLeaf(g, c, budget))
                    return true;
            return false;
        }
        std::vector<std::string> alt;
        if ((t == "rv" && s.geti("n", 2) == 1) || t == "so2" || t == "time")
            alt = {"rv1", "so2", "time"};
        else if ((t == "rv" && s.geti("n", 2) == 3) || t == "se2")
            alt = {"rv3", "se2"};
        if (alt.empty() || budget-- > 0)
            return false;
        std::string cur = t == "rv" ? "rv" + std::to_string(s.geti("n", 2)) : t;
        std::string pick;
        do
            pick = g.pick(alt);
        while (pick == cur);
        double w = s.getd("w", 1.0);
        bool hasW = s.has("w");
        s = Json::object();
        if (pick[0] == 'r')
        {
            s["t"] = "rv";
            s["n"] = (long)(pick[2] - '0');
        }
        else
            s["t"] = pick;
        if (hasW)
            s["w"] = w;
        return true;
    }
    ob::StateSpacePtr buildSpace(const Json &s)
    {
        std::string t = s.gets("t");
        if (t == "rv")
        {
            auto sp = std::make_shared<ob::RealVectorStateSpace>((unsigned)s.geti("n", 2));
            sp->setBounds(-3, 7);
            return sp;
        }
        if (t == "so2")
            return std::make_shared<ob::SO2StateSpace>();
        if (t == "so3")
            return std::make_shared<ob::SO3StateSpace>();
        if (t == "se2")
        {
            auto sp = std::make_shared<ob::SE2StateSpace>();
            ob::RealVectorBounds b(2);
            b.setLow(-1);
            b.setHigh(4);
            sp->setBounds(b);
            return sp;
        }
        if (t == "se3")
        {
            auto sp = std::make_shared<ob::SE3StateSpace>();
            ob::RealVectorBounds b(3);
            b.setLow(-2);
            b.setHigh(2);
            sp->setBounds(b);
            return sp;
        }
        if (t == "time")
        {
            auto sp = std::make_shared<ob::TimeStateSpace>();
            sp->setBounds(0, 10);
            return sp;
        }
        if (t == "discrete")
            return std::make_shared<ob::DiscreteStateSpace>((int)s.geti("lo"), (int)s.geti("hi"));
        auto sp = std::make_shared<ob::CompoundStateSpace>();
        for (auto &c : s["c"].items())
            sp->addSubspace(buildSpace(c), c.getd("w", 1.0));
        sp->lock();
        return sp;
    }

    bool sameBits(const ob::StateSpacePtr &sp, const ob::State *a, const ob::State *b)
    {
        unsigned l = sp->getSerializationLength();
        std::vector<char> x(l), y(l);
        sp->serialize(x.data(), a);
        sp->serialize(y.data(), b);
        return x == y;
    }

    Json genCase(sim::Rng &g, bool thorough)
    {
        Json plan = Json::object();
        bool twin = false;
        static const char *kinds[] = {"states", "states", "pdata", "pdata", "cpdata"};
        plan["kind"] = g.pick(kinds);
        plan["space"] = genSpace(g, 0);
        plan["other_space"] = genSpace(g, 0);
        plan["ompl_seed"] = (long)g.range(1, 1000000000);
        twin = true;
        plan["n"] = (long)g.range(0, thorough ? 40 : 14);
        plan["edges"] = (long)g.range(0, thorough ? 80 : 24);
        plan["removed"] = (long)g.range(0, 3);
        plan["both_marks"] = g.chance(0.1);
        // which faults this case enumerates / samples (swarm)
        Json ops = Json::array();
        auto add = [&](const char *k) {
            Json o = Json::object();
            o["op"] = k;
            ops.push(o);
        };
        add("roundtrip");
        if (g.chance(0.9))
            add("truncate-every-offset");
        if (g.chance(0.6))
            add("short-reads");
        if (g.chance(0.5))
            add("disk-full");
        if (g.chance(0.5))
            add("wrong-marker");
        if (g.chance(0.6))
            add("other-space");
        plan["ops"] = ops;
        // (drawn last) the wrong space is a near twin of the right one: same shape, same total dimension and serialization
        // length, one leaf of another type
        if (twin && g.chance(0.4))
        {
            Json t = plan["space"];
            int skip = (int)g.below(3);
            if (twinLeaf(g, t, skip))
                plan["other_space"] = t;
        }
        return plan;
    }
}  // namespace

class IoSim : public sim::Engine
{
public:
    std::string name() const override
    {
        return "iosim";
    }
    long defaultCases(const sim::Options &) const override
    {
        return 100000000;
    }
    void init(const sim::Options &) override
    {
        ompl::msg::useOutputHandler(&g_capture);
        ompl::msg::setLogLevel(ompl::msg::LOG_WARN);
    }
    Json generate(const sim::Options &o, uint64_t caseSeed, long) override
    {
        sim::Rng g(caseSeed);
        return genCase(g, o.thorough());
    }
    sim::CaseResult run(const sim::Options &o, const Json &plan) override;
    std::vector<Json> simplifications(const Json &plan) override
    {
        std::vector<Json> out;
        for (const char *k : {"n", "edges", "removed"})
            if (plan.geti(k) > 0)
            {
                Json p = plan;
                p[k] = plan.geti(k) / 2;
                out.push_back(p);
                Json p2 = plan;
                p2[k] = plan.geti(k) - 1;
                out.push_back(p2);
            }
        if (plan["space"].gets("t") == "compound")
            for (auto &c : plan["space"]["c"].items())
            {
                Json p = plan;
                p["space"] = c;
                out.push_back(p);
            }
        return out;
    }
    std::string rule(const sim::Options &) const override
    {
        return "fault enumeration: case = generated (nested) state space x seeded state set / planner-data graph (tags, "
               "start/goal marks, removed vertices, weighted edges; with controls and durations for the control variant) "
               "stored through a simulated ostream; then a fault-free round trip plus a swarm-chosen subset of: truncation "
               "at EVERY byte offset of the archive (enumerated), short reads of 1/2/7 bytes per refill, read error "
               "(exception from the streambuf) at sampled offsets, disk full on the write side at sampled offsets, "
               "overwritten archive marker, loading into a space with a different signature. non-trivial = at least one "
               "faulted load was judged on a non-empty archive; distinct = distinct (kind, space shape, fault kinds, size "
               "bucket) signatures";
    }
    std::vector<std::string> realComponents(const sim::Options &) const override
    {
        return {"StateStorage", "base::PlannerDataStorage + PlannerData", "control::PlannerDataStorage + PlannerData",
                "StateSpace serialize/deserialize/copyState/cloneState/copyToReals/copyFromReals/computeSignature for all "
                "shipped basic spaces and nested compounds", "copyStateData (partial copies)", "boost::archive::binary_[io]archive"};
    }
    std::vector<std::string> stubComponents(const sim::Options &) const override
    {
        return {"std::streambuf (harness: truncating / short-reading / failing)", "log output handler (harness: counts "
                "WARN/ERROR reports)"};
    }
    std::vector<std::string> assumptions(const sim::Options &) const override
    {
        return {"'reported' = load() returns false (planner data) or a WARN/ERROR message is logged (StateStorage::load "
                "returns void)", "memory leaked on the rejected path is outside the statement and not judged (LSan off)",
                "in-memory round trips (copy/clone/serialize/reals/partial copy) are a rider evaluated on the simulated "
                "state stream: pure functions, not what the level claim rests on"};
    }
};

static long g_reusedStorage = 0;
sim::CaseResult IoSim::run(const sim::Options &, const Json &plan)
{
    sim::CaseResult res;
    const std::string P = "C09";
    std::string kind = plan.gets("kind");
    std::string sfx = " kind=" + kind;
    ompl::RNG::setSeed((std::uint_fast32_t)plan.geti("ompl_seed", 1));
    ob::StateSpacePtr sp;
    {
        // in a third of the cases the space reaches its planned shape in two steps: it is set up, then it grows by its last
        // dimension / component (a legal change while it is not locked), and is set up again by the space information below
        const Json &sj = plan["space"];
        const bool grow = plan.geti("ompl_seed", 1) % 3 == 0;
        if (grow && sj.gets("t") == "rv" && sj.geti("n", 2) >= 2)
        {
            auto rv = std::make_shared<ob::RealVectorStateSpace>((unsigned)sj.geti("n", 2) - 1);
            rv->setBounds(-3, 7);
            rv->setup();
            rv->addDimension(-3, 7);
            sp = rv;
            res.probes["space-grown-after-its-first-setup"]++;
        }
        else if (grow && sj.gets("t") != "so2" && sj.gets("t") != "so3" && sj.gets("t") != "se2" && sj.gets("t") != "se3" && sj.gets("t") != "time" &&
                 sj.gets("t") != "discrete" && sj.gets("t") != "rv" && sj["c"].size() >= 2)
        {
            auto cs = std::make_shared<ob::CompoundStateSpace>();
            const auto &comps = sj["c"].items();
            for (size_t i = 0; i + 1 < comps.size(); i++)
                cs->addSubspace(buildSpace(comps[i]), comps[i].getd("w", 1.0));
            cs->setup();
            cs->addSubspace(buildSpace(comps.back()), comps.back().getd("w", 1.0));
            cs->lock();
            sp = cs;
            res.probes["space-grown-after-its-first-setup"]++;
        }
        else
            sp = buildSpace(sj);
    }
    ob::StateSpacePtr other = buildSpace(plan["other_space"]);
    auto si = std::make_shared<ob::SpaceInformation>(sp);
    si->setStateValidityChecker([](const ob::State *) { return true; });
    si->setup();
    std::vector<int> sigA, sigB;
    sp->computeSignature(sigA);
    other->computeSignature(sigB);
    bool otherDiffers = ownSignature(plan["space"]) != ownSignature(plan["other_space"]);  // (not: sigA != sigB)
    auto sampler = sp->allocStateSampler();
    int n = (int)plan.geti("n");
    std::vector<ob::State *> states;
    for (int i = 0; i < n; i++)
    {
        ob::State *s = sp->allocState();
        sampler->sampleUniform(s);
        states.push_back(s);
    }
    uint64_t h = 1469598103934665603ULL;
    long judgedFaulted = 0, truncations = 0;
    bool bothMarkLost = false;
    std::string faultKinds;

    // ---- rider: in-memory round trips ---------------------------------------------------------------------
    for (int i = 0; i < n && res.vclass.empty(); i++)
    {
        ob::State *s = states[(size_t)i];
        ob::State *c = sp->allocState();
        sp->copyState(c, s);
        if (!sp->equalStates(c, s) || !sameBits(sp, c, s))
            res.violate(P + ".copy-not-equal", fmt("state %d: copyState result differs", i));
        ob::State *cl = sp->cloneState(s);
        if (!sp->equalStates(cl, s))
            res.violate(P + ".clone-not-equal", fmt("state %d: cloneState result differs", i));
        std::vector<char> buf(sp->getSerializationLength());
        sp->serialize(buf.data(), s);
        ob::State *d = sp->allocState();
        sp->deserialize(d, buf.data());
        if (!sp->equalStates(d, s) || !sameBits(sp, d, s))
            res.violate(P + ".serialize-roundtrip-not-equal", fmt("state %d: deserialize(serialize(s)) differs", i));
        std::vector<double> reals;
        sp->copyToReals(reals, s);
        ob::State *r = sp->allocState();
        sp->copyState(r, states[(size_t)((i + 1) % n)]);  // start from another state's contents
        sp->copyFromReals(r, reals);
        // discrete components are not part of the reals; compare the reals again
        std::vector<double> reals2;
        sp->copyToReals(reals2, r);
        if (reals != reals2)
            res.violate(P + ".reals-roundtrip-not-equal", fmt("state %d: copyToReals(copyFromReals(copyToReals(s))) differs", i));
        // the index-based view of the same reals (what ScopedState::reals(), operator[] and operator=(vector) use): value k
        // is real k of copyToReals, there are exactly reals.size() of them, and writing them through the indices reproduces the state
        if (res.vclass.empty())
        {
            bool okIdx = true;
            for (unsigned k = 0; k < reals.size() && okIdx; k++)
            {
                const double *a = sp->getValueAddressAtIndex(s, k);
                okIdx = a != nullptr && (*a == reals[k] || (*a != *a && reals[k] != reals[k]));
            }
            if (okIdx && sp->getValueAddressAtIndex(s, (unsigned)reals.size()) != nullptr)
                okIdx = false;
            if (!okIdx)
                res.violate(P + ".reals-by-index-differ", fmt("state %d: getValueAddressAtIndex does not address the reals of copyToReals (%zu reals)", i, reals.size()));
            else
            {
                ob::ScopedState<> ss1(sp), ss2(sp);
                ss1 = s;
                if (ss1.reals() != reals)
                    res.violate(P + ".reals-by-index-differ", fmt("state %d: ScopedState::reals() differs from copyToReals", i));
                else
                {
                    ss2 = states[(size_t)((i + 1) % n)];
                    ss2 = reals;
                    std::vector<double> reals3;
                    sp->copyToReals(reals3, ss2.get());
                    if (reals3 != reals)
                        res.violate(P + ".reals-by-index-differ", fmt("state %d: ScopedState::operator=(vector of reals) does not reproduce the reals", i));
                }
            }
        }
        sp->freeState(c);
        sp->freeState(cl);
        sp->freeState(d);
        sp->freeState(r);
    }
    // partial copy between related compounds: destination = [some descendant subspace of A (any depth), a fresh R^2]
    if (res.vclass.empty() && sp->isCompound() && n > 0)
    {
        sim::Rng g((uint64_t)plan.geti("ompl_seed", 1) * 977 + 5);
        // walk down to a random descendant, remembering the component chain (found without the library's name maps)
        ob::StateSpacePtr sub = sp;
        std::vector<unsigned> chain;
        while (sub->isCompound() && (chain.empty() || g.chance(0.6)))
        {
            auto *c = sub->as<ob::CompoundStateSpace>();
            unsigned i = (unsigned)g.below(c->getSubspaceCount());
            chain.push_back(i);
            sub = c->getSubspace(i);
        }
        auto locate = [&](const ob::State *s) {
            for (unsigned i : chain)
                s = s->as<ob::CompoundState>()->components[i];
            return s;
        };
        auto dst = std::make_shared<ob::CompoundStateSpace>();
        dst->addSubspace(sub, 1.0);
        auto extra = std::make_shared<ob::RealVectorStateSpace>(2);
        extra->setBounds(0, 1);
        dst->addSubspace(extra, 1.0);
        dst->lock();
        dst->setup();
        sp->setup();
        ob::State *d = dst->allocState();
        // start from a different state's contents so that a copy that does nothing is visible
        sub->copyState(d->as<ob::CompoundState>()->components[0], locate(states[(size_t)(n - 1)]));
        d->as<ob::CompoundState>()->as<ob::RealVectorStateSpace::StateType>(1)->values[0] = 0.25;
        d->as<ob::CompoundState>()->as<ob::RealVectorStateSpace::StateType>(1)->values[1] = 0.75;
        std::vector<std::string> common;
        dst->getCommonSubspaces(sp, common);
        const ob::State *srcSub = locate(states[0]);
        const ob::State *dstSub = d->as<ob::CompoundState>()->components[0];
        auto *ex = d->as<ob::CompoundState>()->as<ob::RealVectorStateSpace::StateType>(1);
        // (1) by name: the common subspaces must include the shared one, and copying them must transfer it
        bool listed = std::find(common.begin(), common.end(), sub->getName()) != common.end();
        ob::AdvancedStateCopyOperation r = ob::copyStateData(dst, d, sp, states[0], common);
        // (the list may name the subspace itself or an equivalent cover of it, e.g. the only child of a one-component
        // compound; what counts is that the shared data arrives)
        bool byName = r != ob::NO_DATA_COPIED && sub->equalStates(srcSub, dstSub);
        // (2) by structure, from a fresh (different) destination content
        sub->copyState(d->as<ob::CompoundState>()->components[0], locate(states[(size_t)(n - 1)]));
        ob::AdvancedStateCopyOperation r2 = ob::copyStateData(dst, d, sp, states[0]);
        if (!byName)
            res.violate(P + ".partial-copy-missed-common-component",
                        fmt("getCommonSubspaces/copyStateData(by name) did not transfer the common subspace (depth %zu, %s, listed=%d)", chain.size(), sub->getName().c_str(), (int)listed));
        else if (r2 == ob::NO_DATA_COPIED || !sub->equalStates(srcSub, dstSub))
            res.violate(P + ".partial-copy-missed-common-component",
                        fmt("copyStateData did not transfer the common subspace (depth %zu, %s) exactly", chain.size(), sub->getName().c_str()));
        else if (ex->values[0] != 0.25 || ex->values[1] != 0.75)
            res.violate(P + ".partial-copy-touched-foreign-component", "copyStateData changed a component the source does not have");
        res.probes["partial-copy-of-a-nested-subspace"] += chain.size() > 1;
        dst->freeState(d);
    }

    // ---- build the object and store it ---------------------------------------------------------------------
    std::shared_ptr<ob::StateStorage> storage;
    std::shared_ptr<ob::PlannerData> pd;
    std::shared_ptr<oc::SpaceInformation> csi;
    std::shared_ptr<oc::RealVectorControlSpace> cspace;
    std::vector<oc::Control *> controls;
    std::unique_ptr<ob::PlannerDataStorage> pds;
    struct EdgeRec
    {
        unsigned u, v;
        double w, duration;
        std::vector<double> ctrl;
    };
    std::vector<EdgeRec> edges;
    std::vector<int> tags;
    std::vector<char> isStart, isGoal;
    std::vector<ob::State *> vstates;  // state of vertex i at store time
    OutBuf out;
    bool stored = true;
    auto buildAndStore = [&](OutBuf &ob_) -> bool {
        std::ostream os(&ob_);
        if (kind == "states")
        {
            storage = std::make_shared<ob::StateStorage>(sp);
            for (auto *s : states)
                storage->addState(s);
            long before = g_capture.reports;
            storage->store(os);
            return g_capture.reports == before && os.good();
        }
        sim::Rng g((uint64_t)plan.geti("ompl_seed", 1) * 31 + 7);
        if (kind == "cpdata")
        {
            cspace = std::make_shared<oc::RealVectorControlSpace>(sp, 2);
            ob::RealVectorBounds cb(2);
            cb.setLow(-1);
            cb.setHigh(1);
            cspace->setBounds(cb);
            csi = std::make_shared<oc::SpaceInformation>(sp, cspace);
            csi->setStateValidityChecker([](const ob::State *) { return true; });
            csi->setStatePropagator([](const ob::State *, const oc::Control *, const double, ob::State *) {});
            csi->setup();
            pd = std::make_shared<oc::PlannerData>(csi);
            pds.reset(new oc::PlannerDataStorage());
        }
        else
        {
            pd = std::make_shared<ob::PlannerData>(si);
            pds.reset(new ob::PlannerDataStorage());
        }
        tags.clear();
        isStart.clear();
        isGoal.clear();
        edges.clear();
        for (int i = 0; i < n; i++)
        {
            int tag = (int)g.range(-3, 1000);
            int mark = (int)g.below(5);
            ob::PlannerDataVertex v(states[(size_t)i], tag);
            if (mark == 0)
                pd->addStartVertex(v);
            else if (mark == 1)
                pd->addGoalVertex(v);
            else
                pd->addVertex(v);
        }
        if (plan.getb("both_marks") && n > 0)
        {
            pd->markStartState(states[0]);
            pd->markGoalState(states[0]);
        }
        long ne = n >= 2 ? plan.geti("edges") : 0;
        for (long e = 0; e < ne; e++)
        {
            unsigned u = (unsigned)g.below((uint64_t)n), v = (unsigned)g.below((uint64_t)n);
            if (u == v || pd->edgeExists(u, v))
                continue;
            double wgt = (double)g.range(0, 2000) / 16.0;
            if (kind == "cpdata")
            {
                oc::Control *c = cspace->allocControl();
                c->as<oc::RealVectorControlSpace::ControlType>()->values[0] = g.real(-1, 1);
                c->as<oc::RealVectorControlSpace::ControlType>()->values[1] = g.real(-1, 1);
                controls.push_back(c);
                double dur = (double)g.range(1, 40) * 0.05;
                pd->addEdge(u, v, oc::PlannerDataEdgeControl(c, dur), ob::Cost(wgt));
            }
            else
                pd->addEdge(u, v, ob::PlannerDataEdge(), ob::Cost(wgt));
        }
        long rm = std::min<long>(plan.geti("removed"), std::max(0, n - 1));
        for (long r = 0; r < rm; r++)
            pd->removeVertex((unsigned)g.below(pd->numVertices()));
        // record what the graph holds now: this is what must come back
        vstates.clear();
        for (unsigned i = 0; i < pd->numVertices(); i++)
        {
            tags.push_back(pd->getVertex(i).getTag());
            isStart.push_back(pd->isStartVertex(i));
            isGoal.push_back(pd->isGoalVertex(i));
            vstates.push_back(const_cast<ob::State *>(pd->getVertex(i).getState()));
            std::vector<unsigned> el;
            pd->getEdges(i, el);
            for (unsigned v : el)
            {
                EdgeRec er;
                er.u = i;
                er.v = v;
                ob::Cost c;
                pd->getEdgeWeight(i, v, &c);
                er.w = c.value();
                er.duration = 0;
                if (kind == "cpdata")
                {
                    const auto &ec = static_cast<const oc::PlannerDataEdgeControl &>(pd->getEdge(i, v));
                    er.duration = ec.getDuration();
                    const double *cv = ec.getControl()->as<oc::RealVectorControlSpace::ControlType>()->values;
                    er.ctrl = {cv[0], cv[1]};
                }
                edges.push_back(er);
            }
        }
        return pds->store(*pd, os);
    };
    stored = buildAndStore(out);
    if (!stored)
        res.violate(P + ".store-failed" + sfx, "store() into a healthy stream reported failure");
    const std::string image = out.data;
    h = sim::fnv1a(image, h);

    // ---- load + compare ------------------------------------------------------------------------------------------
    // returns: 0 = object equals the original, 1 = exact prefix of the original (strictly less), 2 = something else
    struct Loaded
    {
        bool reported = false;
        int relation = 0;
        std::string what;
        bool exception = false;
    };
    auto loadAndCompare = [&](const std::string &img, long end, long chunk, bool throwAtEnd, const ob::StateSpacePtr &into) {
        Loaded L;
        InBuf ib(img, end, chunk, throwAtEnd);
        std::istream is(&ib);
        long before = g_capture.reports;
        try
        {
            if (kind == "states")
            {
                ob::StateStorage st(into);
                // in two of five cases the storage object has been used before: load() replaces its contents
                if (into == sp && !states.empty() && plan.geti("ompl_seed", 1) % 5 < 2)
                {
                    st.addState(states[states.size() - 1]);
                    st.addState(states[0]);
                    g_reusedStorage++;
                }
                st.load(is);
                L.reported = g_capture.reports > before;
                size_t m = st.size();
                if (into != sp)
                {
                    L.relation = m == 0 ? 1 : 2;
                    L.what = fmt("%zu states loaded into a space with a different signature", m);
                    return L;
                }
                if (m > states.size())
                {
                    L.relation = 2;
                    L.what = fmt("%zu states loaded, original had %zu", m, states.size());
                    return L;
                }
                for (size_t i = 0; i < m; i++)
                    if (!sp->equalStates(st.getState((unsigned)i), states[i]) || !sameBits(sp, st.getState((unsigned)i), states[i]))
                    {
                        L.relation = 2;
                        L.what = fmt("loaded state %zu differs from the stored one", i);
                        return L;
                    }
                L.relation = m == states.size() ? 0 : 1;
                return L;
            }
            std::shared_ptr<ob::PlannerData> got;
            ob::SpaceInformationPtr isi = si;
            std::shared_ptr<oc::SpaceInformation> icsi = csi;
            if (into != sp)
            {
                if (kind == "cpdata")
                {
                    auto ics = std::make_shared<oc::RealVectorControlSpace>(into, 2);
                    ob::RealVectorBounds cb(2);
                    cb.setLow(-1);
                    cb.setHigh(1);
                    ics->setBounds(cb);
                    icsi = std::make_shared<oc::SpaceInformation>(into, ics);
                    icsi->setStateValidityChecker([](const ob::State *) { return true; });
                    icsi->setStatePropagator([](const ob::State *, const oc::Control *, const double, ob::State *) {});
                    icsi->setup();
                }
                else
                {
                    isi = std::make_shared<ob::SpaceInformation>(into);
                    isi->setStateValidityChecker([](const ob::State *) { return true; });
                    isi->setup();
                }
            }
            if (kind == "cpdata")
                got = std::make_shared<oc::PlannerData>(icsi);
            else
                got = std::make_shared<ob::PlannerData>(isi);
            bool ok = pds->load(is, *got);
            L.reported = !ok;
            if (ok && g_capture.reports > before)
                res.probes["load-returned-true-but-logged-a-warning"]++;
            unsigned m = got->numVertices();
            if (into != sp)
            {
                L.relation = m == 0 ? 1 : 2;
                L.what = fmt("%u vertices loaded into a space with a different signature", m);
                return L;
            }
            if (m > vstates.size())
            {
                L.relation = 2;
                L.what = fmt("%u vertices loaded, original had %zu", m, vstates.size());
                return L;
            }
            for (unsigned i = 0; i < m; i++)
            {
                const auto &v = got->getVertex(i);
                if (v.getState() == nullptr || !sp->equalStates(v.getState(), vstates[i]) || !sameBits(sp, v.getState(), vstates[i]))
                {
                    L.relation = 2;
                    L.what = fmt("state of loaded vertex %u differs from the stored one", i);
                    return L;
                }
                if (v.getTag() != tags[i] || got->isStartVertex(i) != (bool)isStart[i] ||
                    (got->isGoalVertex(i) != (bool)isGoal[i] && !(isStart[i] && isGoal[i])))
                {
                    L.relation = 2;
                    L.what = fmt("tag or start/goal mark of loaded vertex %u differs (tag %d vs %d, start %d vs %d, goal %d vs %d)", i,
                                 v.getTag(), tags[i], (int)got->isStartVertex(i), (int)isStart[i], (int)got->isGoalVertex(i), (int)isGoal[i]);
                    return L;
                }
                if (isStart[i] && isGoal[i] && !got->isGoalVertex(i))
                    bothMarkLost = true;  // judged separately below, under its own class
            }
            // edges: every loaded edge must be an original edge with the same payload
            unsigned ne = got->numEdges();
            unsigned matched = 0;
            for (auto &er : edges)
            {
                if (er.u >= m || er.v >= m || !got->edgeExists(er.u, er.v))
                    continue;
                ob::Cost c;
                got->getEdgeWeight(er.u, er.v, &c);
                bool same = c.value() == er.w;
                if (same && kind == "cpdata")
                {
                    const auto &ec = static_cast<const oc::PlannerDataEdgeControl &>(got->getEdge(er.u, er.v));
                    const double *cv = ec.getControl() ? ec.getControl()->as<oc::RealVectorControlSpace::ControlType>()->values : nullptr;
                    same = cv && ec.getDuration() == er.duration && cv[0] == er.ctrl[0] && cv[1] == er.ctrl[1];
                }
                if (!same)
                {
                    L.relation = 2;
                    L.what = fmt("edge %u->%u came back with a different weight / control / duration", er.u, er.v);
                    return L;
                }
                matched++;
            }
            if (matched != ne)
            {
                L.relation = 2;
                L.what = fmt("%u edges loaded but only %u of them are edges of the original", ne, matched);
                return L;
            }
            L.relation = (m == vstates.size() && ne == edges.size()) ? 0 : 1;
            return L;
        }
        catch (std::exception &ex)
        {
            L.exception = true;
            L.relation = 2;
            L.what = std::string("exception escaped load(): ") + ex.what();
            return L;
        }
    };
    auto judgeFaulted = [&](const Loaded &L, const std::string &fault, const std::string &where) {
        judgedFaulted++;
        if (L.exception)
            res.violate(P + ".exception-escaped-load" + sfx + " fault=" + fault, where + ": " + L.what);
        else if (L.relation == 2)
            res.violate(P + ".corrupt-object-after-faulted-load" + sfx + " fault=" + fault, where + ": " + L.what);
        else if (!L.reported)
            res.violate(P + ".faulted-load-silently-accepted" + sfx + " fault=" + fault,
                        where + (L.relation == 0 ? ": nothing reported (contents happen to be complete)" : ": nothing reported and the object holds only a prefix of the original"));
    };

    const auto &ops = plan["ops"].items();
    long S = (long)image.size();
    for (size_t oi = 0; oi < ops.size() && res.vclass.empty() && stored; oi++)
    {
        std::string op = ops[oi].gets("op");
        if (op != "roundtrip")
            faultKinds += (faultKinds.empty() ? "" : "+") + op;
        if (op == "roundtrip")
        {
            Loaded L = loadAndCompare(image, S, 4096, false, sp);
            if (L.exception || L.relation != 0)
                res.violate(P + ".roundtrip-differs" + sfx, "fault-free store/load: " + (L.what.empty() ? std::string("loaded object is only a prefix of the original") : L.what));
            else if (L.reported)
                res.violate(P + ".roundtrip-reported-failure" + sfx, "fault-free load reported a failure");
            else if (bothMarkLost)
                res.violate(P + ".start-and-goal-vertex-lost-its-goal-mark" + sfx,
                            "a vertex marked both start and goal came back from a fault-free store/load as a start vertex only");
        }
        else if (op == "truncate-every-offset")
        {
            for (long cut = 0; cut < S && res.vclass.empty(); cut++)
            {
                Loaded L = loadAndCompare(image, cut, 4096, false, sp);
                truncations++;
                // cutting inside the archive must be noticed - unless nothing of the payload is missing, which cannot
                // happen before the last byte of the last element (relation 0 with cut < S is then a finding too)
                judgeFaulted(L, "truncation", fmt("archive of %ld bytes truncated at byte %ld", S, cut));
            }
            res.faults["F8-truncation-at-offset"] += S;
        }
        else if (op == "short-reads")
        {
            for (long chunk : {1L, 2L, 7L})
            {
                Loaded L = loadAndCompare(image, S, chunk, false, sp);
                if (L.exception || L.relation != 0 || L.reported)
                    res.violate(P + ".short-reads-visible" + sfx, fmt("stream delivering %ld byte(s) per refill: ", chunk) + (L.what.empty() ? "load reported failure / incomplete" : L.what));
                res.faults["F8-short-reads"]++;
            }
        }
        else if (op == "read-error")
        {
            sim::Rng g((uint64_t)S * 977 + oi);
            for (int k = 0; k < 12 && S > 0 && res.vclass.empty(); k++)
            {
                long at = (long)g.below((uint64_t)S);
                Loaded L = loadAndCompare(image, at, 4096, true, sp);
                res.faults["F8-read-error-exception"]++;
                // an exception thrown by the stream itself may surface as a reported failure; it must not escape
                judgeFaulted(L, "read-error", fmt("stream throws at byte %ld of %ld", at, S));
            }
        }
        else if (op == "disk-full")
        {
            sim::Rng g((uint64_t)S * 131 + oi);
            for (int k = 0; k < 6 && S > 0 && res.vclass.empty(); k++)
            {
                OutBuf ob2;
                ob2.failAt = (long)g.below((uint64_t)S);
                bool ok = buildAndStore(ob2);
                res.faults["F8-disk-full"]++;
                judgedFaulted++;
                if (ok)
                    res.violate(P + ".failed-store-not-reported" + sfx, fmt("output stream failed after %ld of %ld bytes but store() reported success", ob2.failAt, S));
                else
                {
                    Loaded L = loadAndCompare(ob2.data, (long)ob2.data.size(), 4096, false, sp);
                    judgeFaulted(L, "disk-full-image", fmt("image cut by a full disk at byte %ld of %ld", ob2.failAt, S));
                }
            }
            // restore the recorded model of the full object (buildAndStore re-records it identically: same seed)
        }
        else if (op == "wrong-marker")
        {
            const char *mk = kind == "states" ? "OMPL" : "MADP";
            size_t pos = image.find(mk);
            if (pos != std::string::npos)
            {
                std::string bad = image;
                bad[pos] ^= 0x20;
                Loaded L = loadAndCompare(bad, S, 4096, false, sp);
                res.faults["F8-wrong-marker"]++;
                judgedFaulted++;
                if (!L.reported || L.exception)
                    res.violate(P + ".wrong-marker-accepted" + sfx, "archive with an overwritten marker was not rejected" + (L.what.empty() ? std::string() : ": " + L.what));
                else if (L.relation == 2 || (L.relation == 0 && n > 0))
                    res.violate(P + ".wrong-marker-accepted" + sfx, "archive with an overwritten marker was reported but still loaded");
            }
        }
        else if (op == "other-space" && otherDiffers)
        {
            Loaded L = loadAndCompare(image, S, 4096, false, other);
            res.faults["F8-archive-of-a-different-space"]++;
            judgedFaulted++;
            if (!L.reported || L.exception)
                res.violate(P + ".foreign-space-archive-accepted" + sfx, "archive of a space with a different signature was not rejected" + (L.what.empty() ? std::string() : ": " + L.what));
            else if (L.relation == 2)
                res.violate(P + ".foreign-space-archive-accepted" + sfx, "rejected, but " + L.what);
        }
    }
    pd.reset();
    storage.reset();
    for (auto *c : controls)
        cspace->freeControl(c);
    for (auto *s : states)
        sp->freeState(s);
    res.trace = sim::hashU64(h, (uint64_t)judgedFaulted);
    res.nontrivial = judgedFaulted > 0 && S > 0 && n > 0;
    res.sig = kind + "/" + plan["space"].gets("t") + (plan["space"].gets("t") == "compound" ? fmt("%zu", plan["space"]["c"].size()) : "") + "/" + faultKinds +
              fmt("/S%ld", S / 256);
    res.probes["archive-bytes"] += S;
    res.probes["faulted-loads-judged"] += judgedFaulted;
    res.probes["truncation-offsets-enumerated"] += truncations;
    Json info = Json::object();
    info["archive_bytes"] = Json(S);
    info["elements"] = Json((long)n);
    info["faulted_loads"] = Json(judgedFaulted);
    res.info = info;
    return res;
}

int main(int argc, char **argv)
{
    IoSim e;
    return sim::engineMain(e, argc, argv);
}
