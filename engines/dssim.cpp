// dssim: data-structure histories versus executable reference models (C10-C13, layer A).
#include "sim/runner.h"
#include "engines/ds_nn.h"
#include "engines/ds_heap.h"
#include "engines/ds_pdf.h"
#include "engines/ds_grid.h"

#include <ompl/util/Console.h>

using sim::Json;

class DsSim : public sim::Engine
{
public:
    std::string name() const override
    {
        return "dssim";
    }
    long defaultCases(const sim::Options &o) const override
    {
        return o.thorough() ? 4000000 : 160000;
    }
    double defaultBudget(const sim::Options &o) const override
    {
        return o.thorough() ? 600 : 30;
    }
    void init(const sim::Options &) override
    {
        ompl::msg::noOutputHandler();
    }
    Json generate(const sim::Options &o, uint64_t caseSeed, long) override
    {
        sim::Rng g(caseSeed);
        if (o.prop == "C10")
            return dsnn::generate(g, o.thorough());
        if (o.prop == "C11")
            return dsheap::generate(g, o.thorough());
        if (o.prop == "C12")
            return dspdf::generate(g, o.thorough());
        return dsgrid::generate(g, o.thorough());
    }
    sim::CaseResult run(const sim::Options &o, const Json &plan) override
    {
        std::string k = plan.gets("kind");
        if (k == "nn")
            return dsnn::run(o.prop, plan);
        if (k == "heap")
            return dsheap::run(o.prop, plan);
        if (k == "pdf")
            return dspdf::run(o.prop, plan);
        return dsgrid::run(o.prop, plan);
    }
    std::vector<Json> simplifications(const Json &plan) override
    {
        if (plan.gets("kind") == "nn")
            return dsnn::simplifications(plan);
        return {};
    }
    std::string rule(const sim::Options &o) const override
    {
        if (o.prop == "C10")
            return "case = seeded history (8-70 ops quick, up to 160 thorough) of add/add(vector)/remove/remove-absent/"
                   "clear/nearest/nearestK/nearestR/list over one of GNAT, GNAT-no-thread-safety, linear, sqrt-approx "
                   "with swarm-chosen tree parameters, metric (L1/Linf on integer lattices with exact ties, L2 on "
                   "reals), point distribution and pivot-draw fault; every query re-answered by brute force. "
                   "non-trivial = a query ran on >= 2 elements after a removal or after a leaf split; distinct = "
                   "distinct (structure, metric, leaf-vs-degree regime, rebalancing, probes hit, size bucket) signatures";
        if (o.prop == "C11")
            return "case = seeded history of insert/insert(vector)/remove(handle)/update(handle)/pop/rebuild/buildFrom/"
                   "sort/clear/getContent over BinaryHeap with duplicate-rich keys and a counting comparator (both "
                   "orders), compared with a multiset model after every op and drained at the end. non-trivial = an "
                   "interior removal or an update happened; distinct = distinct (order, probes hit, length bucket)";
        if (o.prop == "C12")
            return "case = seeded history of construct/add/update/remove/clear/sample over PDF in the exact (dyadic "
                   "weights, exact selection rule) or drift (huge ratios, rounding-bounded rule) configuration; r on a "
                   "grid that includes every interval boundary +-1ulp, 0 and 1. non-trivial = samples taken after an "
                   "interior removal or weight update; distinct = distinct (config, probes hit, length bucket)";
        return "case = seeded history of insert(createCell+add)/erase(remove+destroyCell)/update/updateAll/lookup/"
               "neighbors/components/clear/tops over Grid, GridN or GridB in dimension 1-6 with swarm-chosen bounds, "
               "interior-neighbour limit and coordinate spread, compared with a std::map model after every op. "
               "non-trivial = >= 3 cells and an erase, a components query or a border flip; distinct = distinct "
               "(variant, dimension, bounds, limit, probes hit, length bucket)";
    }
    std::vector<std::string> realComponents(const sim::Options &o) const override
    {
        if (o.prop == "C10")
            return {"ompl::NearestNeighborsGNAT", "ompl::NearestNeighborsGNATNoThreadSafety",
                    "ompl::NearestNeighborsLinear", "ompl::NearestNeighborsSqrtApprox", "ompl::GreedyKCenters",
                    "ompl::RNG (seeded; pivot draw overridden through hook H1 in fault cases)"};
        if (o.prop == "C11")
            return {"ompl::BinaryHeap"};
        if (o.prop == "C12")
            return {"ompl::PDF"};
        return {"ompl::Grid", "ompl::GridN", "ompl::GridB", "ompl::BinaryHeap (inside GridB)"};
    }
    std::vector<std::string> stubComponents(const sim::Options &o) const override
    {
        if (o.prop == "C10")
            return {"distance function (harness: exact L1/Linf/L2)", "element type (harness struct with identity)"};
        if (o.prop == "C11")
            return {"comparison functor (harness, counting)"};
        if (o.prop == "C13")
            return {"cell payload and priority functors (harness)"};
        return {};
    }
    std::vector<std::string> assumptions(const sim::Options &o) const override
    {
        std::vector<std::string> a = {"single caller thread, no clock: this is the simulator's fault-free configuration "
                                      "(history vs reference model); concurrency on these structures is C19's"};
        if (o.prop == "C10")
            a.push_back("distance functions are exact metrics (integer-valued on lattices) so that ties are real ties");
        if (o.prop == "C12")
            a.push_back("drift configuration: tolerance = accumulated rounding bound of the partial sums; exact "
                        "configuration: no tolerance");
        return a;
    }
};

int main(int argc, char **argv)
{
    DsSim e;
    return sim::engineMain(e, argc, argv);
}
