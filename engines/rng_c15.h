// C15: informed samplers return only useful states (inside the bounds, heuristic cost strictly below the
// bound, not below a given lower bound), the direct sampler's region is exactly the prolate
// hyperspheroid (surface points sum to c, measure analytic) and - statistical rider - it is sampled
// uniformly.  The simulator owns the random stream (seed + extreme-draw bursts through H1).
#pragma once
#include "sim/runner.h"
#include "engines/rng_fault.h"

#include <ompl/base/SpaceInformation.h>
#include <ompl/base/ProblemDefinition.h>
#include <ompl/base/ScopedState.h>
#include <ompl/base/goals/GoalStates.h>
#include <ompl/base/objectives/PathLengthOptimizationObjective.h>
#include <ompl/base/samplers/informed/PathLengthDirectInfSampler.h>
#include <ompl/base/samplers/informed/RejectionInfSampler.h>
#include <ompl/base/samplers/informed/OrderedInfSampler.h>
#include <ompl/base/spaces/RealVectorStateSpace.h>
#include <ompl/base/spaces/SE2StateSpace.h>
#include <ompl/base/spaces/SE3StateSpace.h>
#include <ompl/util/ProlateHyperspheroid.h>
#include <ompl/util/GeometricEquations.h>

namespace c15
{
    using sim::Json;
    using sim::fmt;
    namespace ob = ompl::base;

    inline Json generate(sim::Rng &g, bool thorough)
    {
        Json plan = Json::object();
        plan["kind"] = "c15";
        static const char *spaces[] = {"rv", "rv", "rv", "se2", "se3"};
        std::string sp = g.pick(spaces);
        plan["space"] = sp;
        int n = sp == "rv" ? (int)g.range(2, 8) : (sp == "se2" ? 2 : 3);
        plan["n"] = n;
        static const char *samplers[] = {"direct", "direct", "rejection", "ordered-direct", "ordered-rejection"};
        std::string sk = g.pick(samplers);
        plan["sampler"] = sk;
        plan["num_iters"] = (long)g.pick(std::vector<double>{1, 3, 10, 100, 1000});
        plan["batch"] = (long)g.pick(std::vector<double>{1, 5, 50});
        if (sk.compare(0, 7, "ordered") == 0)
        {
            // bounded since the repair of OrderedInfSampler, but iterations x batch x wrapped iterations multiply
            plan["num_iters"] = (long)g.pick(std::vector<double>{1, 3, 10, 100});
            plan["batch"] = (long)g.pick(std::vector<double>{1, 5});
        }
        plan["ompl_seed"] = (long)g.range(1, 1000000000);
        double half = g.pick(std::vector<double>{1.0, 5.0, 50.0});  // bounds [-half, half]^n
        plan["half"] = half;
        auto pt = [&]() {
            Json a = Json::array();
            double spread = g.pick(std::vector<double>{0.05, 0.3, 0.9}) * half;
            for (int i = 0; i < n; i++)
                a.push(Json(g.real(-spread, spread)));
            return a;
        };
        Json starts = Json::array(), goals = Json::array();
        int ns = g.chance(0.7) ? 1 : (int)g.range(2, 3), ng = g.chance(0.7) ? 1 : (int)g.range(2, 3);
        for (int i = 0; i < ns; i++)
            starts.push(pt());
        for (int i = 0; i < ng; i++)
            goals.push(pt());
        plan["starts"] = starts;
        plan["goals"] = goals;
        plan["uniformity"] = sp == "rv" && ns == 1 && ng == 1 && g.chance(thorough ? 0.1 : 0.04);
        int nops = (int)g.range(3, thorough ? 40 : 16);
        Json ops = Json::array();
        for (int i = 0; i < nops; i++)
        {
            Json op = Json::object();
            int k = (int)g.below(10);
            if (k < 7)
            {
                op["op"] = "sample";
                op["f"] = g.pick(std::vector<double>{1.0000001, 1.001, 1.05, 1.5, 3.0, 10.0, 100.0});
                if (g.chance(0.3))
                    op["lower"] = g.pick(std::vector<double>{0.0, 0.5, 0.9, 0.999});
            }
            else if (k < 8)
            {
                op["op"] = "measure";
                op["f"] = g.pick(std::vector<double>{1.001, 1.05, 1.5, 3.0, 10.0});
            }
            else
            {
                op["op"] = "surface";
                op["f"] = g.pick(std::vector<double>{1.0000001, 1.001, 1.5, 10.0, 100.0});
            }
            if (g.chance(0.3))
                op["fault"] = rngfault::gen(g, 20);
            ops.push(op);
        }
        plan["ops"] = ops;
        return plan;
    }

    inline sim::CaseResult run(const Json &plan)
    {
        sim::CaseResult res;
        const std::string P = "C15";
        std::string spn = plan.gets("space"), sk = plan.gets("sampler");
        int n = (int)plan.geti("n", 2);
        double half = plan.getd("half", 5.0);
        std::string sfx = " sampler=" + sk + " space=" + spn;
        ompl::RNG::setSeed((std::uint_fast32_t)plan.geti("ompl_seed", 1));
        ob::StateSpacePtr ss;
        ob::RealVectorBounds b((unsigned)n);
        b.setLow(-half);
        b.setHigh(half);
        if (spn == "rv")
        {
            auto s = std::make_shared<ob::RealVectorStateSpace>((unsigned)n);
            s->setBounds(b);
            ss = s;
        }
        else if (spn == "se2")
        {
            auto s = std::make_shared<ob::SE2StateSpace>();
            s->setBounds(b);
            ss = s;
        }
        else
        {
            auto s = std::make_shared<ob::SE3StateSpace>();
            s->setBounds(b);
            ss = s;
        }
        auto si = std::make_shared<ob::SpaceInformation>(ss);
        si->setStateValidityChecker([](const ob::State *) { return true; });
        si->setup();
        auto pdef = std::make_shared<ob::ProblemDefinition>(si);
        auto posOf = [&](const ob::State *s, double *p) {
            if (spn == "rv")
                for (int i = 0; i < n; i++)
                    p[i] = s->as<ob::RealVectorStateSpace::StateType>()->values[i];
            else if (spn == "se2")
            {
                p[0] = s->as<ob::SE2StateSpace::StateType>()->getX();
                p[1] = s->as<ob::SE2StateSpace::StateType>()->getY();
            }
            else
            {
                p[0] = s->as<ob::SE3StateSpace::StateType>()->getX();
                p[1] = s->as<ob::SE3StateSpace::StateType>()->getY();
                p[2] = s->as<ob::SE3StateSpace::StateType>()->getZ();
            }
        };
        auto mkState = [&](const Json &a) {
            ob::ScopedState<> s(ss);
            std::vector<double> v;
            for (auto &x : a.items())
                v.push_back(x.d());
            if (spn == "se2")
                v.push_back(0.3);
            if (spn == "se3")
            {
                v.push_back(0);
                v.push_back(0);
                v.push_back(0);
                v.push_back(1);
            }
            ss->copyFromReals(s.get(), v);
            return s;
        };
        std::vector<std::vector<double>> S, G;
        std::vector<ob::ScopedState<>> keep;
        for (auto &a : plan["starts"].items())
        {
            keep.push_back(mkState(a));
            pdef->addStartState(keep.back());
            std::vector<double> p((size_t)n);
            posOf(keep.back().get(), p.data());
            S.push_back(p);
        }
        auto goal = std::make_shared<ob::GoalStates>(si);
        for (auto &a : plan["goals"].items())
        {
            keep.push_back(mkState(a));
            goal->addState(keep.back());
            std::vector<double> p((size_t)n);
            posOf(keep.back().get(), p.data());
            G.push_back(p);
        }
        pdef->setGoal(goal);
        auto opt = std::make_shared<ob::PathLengthOptimizationObjective>(si);
        pdef->setOptimizationObjective(opt);
        auto norm = [&](const std::vector<double> &a, const double *x) {
            double d = 0;
            for (int i = 0; i < n; i++)
                d += (a[(size_t)i] - x[i]) * (a[(size_t)i] - x[i]);
            return std::sqrt(d);
        };
        double dmin = HUGE_VAL;
        size_t bs = 0, bg = 0;
        for (size_t i = 0; i < S.size(); i++)
            for (size_t j = 0; j < G.size(); j++)
            {
                double d = norm(S[i], G[j].data());
                if (d < dmin)
                {
                    dmin = d;
                    bs = i;
                    bg = j;
                }
            }
        if (!(dmin > 1e-6))
        {
            res.sig = "c15/degenerate-foci";
            return res;  // the statement ranges over pairs separated by more than the circle tolerance
        }
        unsigned numIters = (unsigned)plan.geti("num_iters", 100);
        ob::InformedSamplerPtr base, sampler;
        if (sk == "direct" || sk == "ordered-direct")
            base = std::make_shared<ob::PathLengthDirectInfSampler>(pdef, numIters);
        else
            base = std::make_shared<ob::RejectionInfSampler>(pdef, numIters);
        sampler = base;
        bool ordered = sk.compare(0, 7, "ordered") == 0;
        if (ordered)
            sampler = std::make_shared<ob::OrderedInfSampler>(base, (unsigned)plan.geti("batch", 5));
        // positional heuristic: min over starts and goals of |s-x| + |x-g|
        auto posHeuristic = [&](const ob::State *s) {
            std::vector<double> p((size_t)n);
            posOf(s, p.data());
            double best = HUGE_VAL;
            for (auto &a : S)
                for (auto &c : G)
                    best = std::min(best, norm(a, p.data()) + norm(c, p.data()));
            return best;
        };
        ob::State *st = ss->allocState();
        uint64_t h = 1469598103934665603ULL;
        long ok = 0, fail = 0, faults = 0, surface = 0, measures = 0, cutByBounds = 0, probed = 0;
        double minBoundSoFar = HUGE_VAL;
        const auto &ops = plan["ops"].items();
        for (size_t oi = 0; oi < ops.size() && res.vclass.empty(); oi++)
        {
            const Json &op = ops[oi];
            std::string k = op.gets("op");
            double c = op.getd("f", 2.0) * dmin;
            std::string when = fmt("op %zu (%s, c = %.9g = %.9g x focal distance)", oi, k.c_str(), c, op.getd("f"));
            if (k == "sample")
            {
                bool hasLower = op.has("lower") && !ordered;  // the ordered wrapper does not implement the two-bound form
                double lower = hasLower ? op.getd("lower") * c : 0.0;
                rngfault::arm(op["fault"]);
                bool r = hasLower ? sampler->sampleUniform(st, ob::Cost(lower), ob::Cost(c)) : sampler->sampleUniform(st, ob::Cost(c));
                faults += rngfault::disarm();
                // "all of the states that can still help": the rejection sampler keeps a candidate iff heuristicSolnCost(candidate)
                // is below c (and planners prune with the same function), so a state whose cost through ANY start / goal pair
                // is below c must be reported below c, and one whose cost through every pair is above c must not.
                // Probe states come from the harness stream (near the segment of a random start / goal pair), not from the library.
                {
                    sim::Rng pg(sim::mix((uint64_t)plan.geti("ompl_seed", 1), (uint64_t)(oi + 1)));
                    ob::ScopedState<> u(ss);
                    // (the direct sampler drops the spheroid of a start / goal pair for good once a bound is below the pair's
                    // focal distance - bounds only shrink while a planner runs - so its answers are judged only while the
                    // bounds of this history have not grown)
                    const bool judgeProbes = !(sk == "direct" || sk == "ordered-direct") || c <= minBoundSoFar;
                    minBoundSoFar = std::min(minBoundSoFar, c);
                    for (int t = 0; t < 3 && judgeProbes && res.vclass.empty(); t++)
                    {
                        const auto &a = S[(size_t)pg.below(S.size())];
                        const auto &g2 = G[(size_t)pg.below(G.size())];
                        double lam = pg.unit();
                        std::vector<double> v((size_t)n);
                        for (int i = 0; i < n; i++)
                        {
                            double x = a[(size_t)i] + lam * (g2[(size_t)i] - a[(size_t)i]) + (pg.unit() - 0.5) * 0.2 * dmin;
                            v[(size_t)i] = std::min(half, std::max(-half, x));
                        }
                        if (spn == "se2")
                            v.push_back(0.3);
                        if (spn == "se3")
                        {
                            v.push_back(0);
                            v.push_back(0);
                            v.push_back(0);
                            v.push_back(1);
                        }
                        ss->copyFromReals(u.get(), v);
                        double indep = HUGE_VAL;
                        for (size_t i = 0; i < S.size(); i++)
                            for (size_t j = 0; j < G.size(); j++)
                                indep = std::min(indep, ss->distance(keep[i].get(), u.get()) + ss->distance(u.get(), keep[S.size() + j].get()));
                        double lib = sampler->heuristicSolnCost(u.get()).value();
                        probed++;
                        if (indep < c * (1 - 1e-9) && !(lib < c))
                            res.violate(P + ".improving-state-excluded" + sfx,
                                        when + fmt(": a state whose cost through the best start / goal pair is %.12g (below the bound) has heuristicSolnCost %.12g: it can never be sampled or kept",
                                                   indep, lib));
                        else if (indep > c * (1 + 1e-9) && lib < c)
                            res.violate(P + ".non-improving-state-admitted" + sfx,
                                        when + fmt(": a state whose cost through every start / goal pair is at least %.12g (above the bound) has heuristicSolnCost %.12g", indep, lib));
                    }
                }
                if (!r)
                {
                    fail++;  // retry exhaustion is legal and claims nothing
                    continue;
                }
                ok++;
                double hc = sampler->heuristicSolnCost(st).value();
                double ph = posHeuristic(st);
                if (!ss->satisfiesBounds(st))
                    res.violate(P + ".informed-sample-out-of-bounds" + sfx, when + ": successful sample violates the space bounds");
                else if (!(hc < c))
                    res.violate(P + ".informed-sample-not-below-cost-bound" + sfx, when + fmt(": heuristicSolnCost(sample) = %.17g is not strictly below the bound", hc));
                else if (!(ph < c * (1 + 1e-12)))
                    res.violate(P + ".informed-sample-not-below-cost-bound" + sfx, when + fmt(": |start-x|+|x-goal| = %.17g (recomputed) is not below the bound", ph));
                else if (hasLower && hc < lower * (1 - 1e-12))
                    res.violate(P + ".informed-sample-below-lower-bound" + sfx, when + fmt(": heuristicSolnCost(sample) = %.17g is below the lower bound %.17g", hc, lower));
                if (c / 2 + 0.5 * dmin > half * 0.9)
                    cutByBounds++;
                h = sim::hashDouble(h, hc);
            }
            else if (k == "measure")
            {
                if (!(sk == "direct") || S.size() != 1 || G.size() != 1 || !base->hasInformedMeasure())
                    continue;
                minBoundSoFar = std::min(minBoundSoFar, c);
                double m = base->getInformedMeasure(ob::Cost(c));
                // analytic: unit n-ball measure x (c/2) x (sqrt(c^2 - d^2)/2)^(n-1), times the measure of the uninformed part,
                // capped by the measure of the space
                double phs = ompl::unitNBallMeasure((unsigned)n) * (c / 2.0) * std::pow(std::sqrt(c * c - dmin * dmin) / 2.0, n - 1);
                double uninformed = spn == "se2" ? 2.0 * M_PI : (spn == "se3" ? M_PI * M_PI : 1.0);  // SO(2), SO(3) measures
                double expect = std::min(ss->getMeasure(), phs * uninformed);
                measures++;
                if (std::fabs(m - expect) > 1e-9 * std::max(1.0, expect))
                    res.violate(P + ".informed-measure-not-analytic" + sfx, when + fmt(": getInformedMeasure = %.12g, analytic volume %.12g", m, expect));
                h = sim::hashDouble(h, m);
            }
            else  // surface / interior points of a spheroid through the RNG
            {
                auto phs = std::make_shared<ompl::ProlateHyperspheroid>((unsigned)n, S[bs].data(), G[bg].data());
                phs->setTransverseDiameter(c);
                ompl::RNG rng;
                std::vector<double> x((size_t)n);
                rngfault::arm(op["fault"]);
                rng.uniformProlateHyperspheroidSurface(phs, x.data());
                double len = phs->getPathLength(x.data());
                rng.uniformProlateHyperspheroid(phs, x.data());
                faults += rngfault::disarm();
                double len2 = phs->getPathLength(x.data());
                surface++;
                // the spheroid object is stateful: its measure must follow the transverse diameter through a history of changes
                {
                    double c2 = c * 1.7, c3 = c * 0.9 > dmin * 1.0000001 ? c * 0.9 : c * 1.1;
                    auto analytic = [&](double cc) { return ompl::unitNBallMeasure((unsigned)n) * (cc / 2.0) * std::pow(std::sqrt(cc * cc - dmin * dmin) / 2.0, n - 1); };
                    double m1 = phs->getPhsMeasure();
                    phs->setTransverseDiameter(c2);
                    double m2 = phs->getPhsMeasure();
                    phs->setTransverseDiameter(c3);
                    double m3 = phs->getPhsMeasure(), m3b = phs->getPhsMeasure(c3);
                    double dpair = 0;
                    for (int i = 0; i < n; i++)
                        dpair += (S[bs][(size_t)i] - G[bg][(size_t)i]) * (S[bs][(size_t)i] - G[bg][(size_t)i]);
                    (void)dpair;
                    // near c = d the factor sqrt(c^2 - d^2) loses digits to cancellation in whichever way it is formed
                    auto off = [&](double got, double cc) {
                        double rel = 1e-9 + 1e-13 * n / std::max(1e-300, 1.0 - (dmin / cc) * (dmin / cc));
                        return std::fabs(got - analytic(cc)) > rel * std::max(1e-300, analytic(cc));
                    };
                    if (off(m1, c) || off(m2, c2) || off(m3, c3) || off(m3b, c3))
                        res.violate(P + ".phs-measure-does-not-follow-diameter",
                                    when + fmt(": measures %.9g / %.9g / %.9g after setting the transverse diameter to %.6g, %.6g, %.6g; analytic %.9g / %.9g / %.9g", m1, m2, m3, c,
                                               c2, c3, analytic(c), analytic(c2), analytic(c3)));
                }
                if (std::fabs(len - c) > 1e-9 * c)
                    res.violate(P + ".phs-surface-point-off-surface", when + fmt(": summed focal distance of a surface point is %.15g, transverse diameter %.15g", len, c));
                else if (len2 > c * (1 + 1e-9))
                    res.violate(P + ".phs-interior-point-outside", when + fmt(": summed focal distance of an interior point is %.15g > %.15g", len2, c));
                h = sim::hashDouble(h, len);
            }
        }
        // statistical rider: uniformity over the spheroid (single start and goal, R^n, bounds far away)
        if (res.vclass.empty() && plan.getb("uniformity") && sk == "direct")
        {
            double c = 1.3 * dmin;
            if (c / 2 + 0.5 * dmin < half * 0.5)  // spheroid well inside the bounds: no rejection by bounds
            {
                const int N = 20000, B = 20;
                std::vector<long> binsR((size_t)B, 0);
                long pos = 0, got = 0;
                std::vector<double> m((size_t)n), e1((size_t)n), p((size_t)n);
                for (int i = 0; i < n; i++)
                {
                    m[(size_t)i] = 0.5 * (S[0][(size_t)i] + G[0][(size_t)i]);
                    e1[(size_t)i] = (G[0][(size_t)i] - S[0][(size_t)i]) / dmin;
                }
                double a = c / 2, bb = std::sqrt(c * c - dmin * dmin) / 2;
                rngfault::arm(Json());
                for (int k = 0; k < N; k++)
                {
                    if (!base->sampleUniform(st, ob::Cost(c)))
                        continue;
                    posOf(st, p.data());
                    double u1 = 0, perp = 0;
                    for (int i = 0; i < n; i++)
                        u1 += (p[(size_t)i] - m[(size_t)i]) * e1[(size_t)i];
                    for (int i = 0; i < n; i++)
                    {
                        double q = p[(size_t)i] - m[(size_t)i] - u1 * e1[(size_t)i];
                        perp += q * q;
                    }
                    double r2 = (u1 / a) * (u1 / a) + perp / (bb * bb);
                    double rn = std::pow(std::min(1.0, std::sqrt(r2)), n);  // uniform in the ball <=> r^n uniform in [0,1]
                    binsR[(size_t)std::min(B - 1, (int)(rn * B))]++;
                    pos += u1 > 0;
                    got++;
                }
                if (got > N / 2)
                {
                    double chi = 0, e = (double)got / B;
                    for (long v : binsR)
                        chi += (v - e) * (v - e) / e;
                    double z = std::fabs(pos - got / 2.0) / std::sqrt(got / 4.0);
                    res.probes["uniformity-rider-evaluated"]++;
                    // thresholds far in the tail: chi^2(19) > 110 and |z| > 8 both have p < 1e-14 for a uniform sampler
                    if (chi > 110.0)
                        res.violate(P + ".informed-samples-not-uniform" + sfx, fmt("radial chi^2 over %d bins = %.1f for %ld samples (n = %d)", B, chi, got, n));
                    else if (z > 8.0)
                        res.violate(P + ".informed-samples-not-uniform" + sfx, fmt("%ld of %ld samples on the goal side of the centre (z = %.1f)", pos, got, z));
                }
            }
        }
        rngfault::disarm();
        ss->freeState(st);
        res.trace = sim::hashU64(h, (uint64_t)(ok * 31 + fail));
        res.nontrivial = ok > 0;
        res.sig = "c15/" + sk + "/" + spn + fmt("%d/s%zu/g%zu", n, S.size(), G.size()) + (cutByBounds ? "/cut" : "") + (faults ? "/rngfault" : "") +
                  (fail ? "/exhausted" : "");
        res.faults["F5-extreme-draw-burst(H1)"] += faults;
        res.probes["informed-sample-success"] += ok;
        res.probes["heuristic-judged-at-harness-probe-states"] += probed;
        res.probes["informed-sample-exhausted(false)"] += fail;
        res.probes["spheroid-cut-by-bounds"] += cutByBounds;
        res.probes["measure-judged"] += measures;
        res.probes["surface-points-judged"] += surface;
        Json info = Json::object();
        info["ok"] = Json(ok);
        info["exhausted"] = Json(fail);
        res.info = info;
        return res;
    }
}  // namespace c15
