// C10 layer A: seeded op histories over the nearest-neighbour structures, refined against a
// brute-force reference model.  The only nondeterminism inside the structures (GreedyKCenters'
// random first pivot) is owned by the simulator: the ompl seed is part of the plan and the H1
// hook forces the pivot draw to either end in some cases (fault "rng-extreme-draw").
#pragma once
#include "sim/runner.h"

#include <ompl/datastructures/NearestNeighborsGNAT.h>
#include <ompl/datastructures/NearestNeighborsGNATNoThreadSafety.h>
#include <ompl/datastructures/NearestNeighborsLinear.h>
#include <ompl/datastructures/NearestNeighborsSqrtApprox.h>
#include <ompl/util/RandomNumbers.h>

#include <algorithm>
#include <cmath>
#include <memory>

namespace dsnn
{
    using sim::Json;
    using sim::fmt;

    struct Pt
    {
        int id = -1;
        int dim = 0;
        double x[4] = {0, 0, 0, 0};
        bool operator==(const Pt &o) const
        {
            return id == o.id;
        }
        bool operator!=(const Pt &o) const
        {
            return id != o.id;
        }
    };
    inline std::ostream &operator<<(std::ostream &o, const Pt &p)
    {
        return o << "#" << p.id;
    }

    // H1 override state for this engine: 0 = off, 1 = every uniform draw 0, 2 = every uniform draw 1-2^-53,
    // 3 = alternate
    static int g_pivotMode = 0;
    static long g_overrides = 0;
    static bool rngOverride(int kind, double *out)
    {
        if (g_pivotMode == 0 || kind != 0)
            return false;
        g_overrides++;
        bool hi = g_pivotMode == 2 || (g_pivotMode == 3 && (g_overrides & 1));
        *out = hi ? 0.99999999999999988897769753748 : 0.0;
        return true;
    }

    inline double dist(int metric, const Pt &a, const Pt &b)
    {
        double s = 0;
        for (int i = 0; i < a.dim; i++)
        {
            double d = std::fabs(a.x[i] - b.x[i]);
            if (metric == 0)
                s += d;
            else if (metric == 1)
                s = std::max(s, d);
            else
                s += d * d;
        }
        return metric == 2 ? std::sqrt(s) : s;
    }

    inline Json ptJson(const Pt &p)
    {
        Json a = Json::array();
        for (int i = 0; i < p.dim; i++)
            a.push(Json(p.x[i]));
        return a;
    }
    inline Pt ptFrom(const Json &a, int dim)
    {
        Pt p;
        p.dim = dim;
        for (int i = 0; i < dim && i < (int)a.size(); i++)
            p.x[i] = a.at((size_t)i).d();
        return p;
    }

    inline Json generate(sim::Rng &g, bool thorough)
    {
        Json plan = Json::object();
        static const char *structs[] = {"gnat", "gnat", "gnat_nts", "gnat_nts", "linear", "sqrt"};
        std::string st = g.pick(structs);
        plan["kind"] = "nn";
        plan["structure"] = st;
        int degree = (int)g.range(2, 8);
        Json prm = Json::object();
        prm["degree"] = degree;
        prm["min_degree"] = (int)g.range(2, degree);
        prm["max_degree"] = (int)g.range(degree, 12);
        // leaf capacity: mostly >= degree (the regime planners use), sometimes smaller (allowed by the API)
        prm["leaf"] = g.chance(0.25) ? (int)g.range(1, degree) : (int)g.range(degree, 12);
        prm["cache"] = (int)g.range(1, 6);
        prm["rebalancing"] = g.chance(0.4);
        plan["params"] = prm;
        int metric = (int)g.below(3);
        static const char *mn[] = {"l1", "linf", "l2"};
        plan["metric"] = mn[metric];
        int dim = (int)g.range(1, 3);
        plan["dim"] = dim;
        static const char *pm[] = {"seed", "seed", "low", "high", "alternate"};
        plan["pivot"] = g.pick(pm);
        plan["ompl_seed"] = (long)g.range(1, 1000000);
        // point distribution
        int distrib = (int)g.below(4);  // 0 lattice, 1 duplicates-heavy lattice, 2 clusters, 3 uniform reals
        if (metric == 2)
            distrib = g.chance(0.7) ? 3 : 2;
        int span = distrib == 1 ? 2 : (int)g.range(2, 6);
        auto genPt = [&]() {
            Json a = Json::array();
            if (distrib <= 1)
                for (int i = 0; i < dim; i++)
                    a.push(Json((double)g.range(0, span)));
            else if (distrib == 2)
            {
                long c = g.range(0, 2);
                for (int i = 0; i < dim; i++)
                    a.push(metric == 2 ? Json((double)c * 1000.0 + g.unit()) : Json((double)(c * 1000 + g.range(0, 2))));
            }
            else
                for (int i = 0; i < dim; i++)
                    a.push(metric == 2 ? Json(g.real(0, 10)) : Json((double)g.range(0, 40)));
            return a;
        };
        int nops = (int)g.range(8, thorough ? 160 : 70);
        Json ops = Json::array();
        double pAdd = g.real(0.25, 0.6), pRm = g.real(0.05, 0.35);
        for (int k = 0; k < nops; k++)
        {
            Json op = Json::object();
            double u = g.unit();
            if (u < pAdd)
            {
                if (g.chance(0.15))
                {
                    op["op"] = "addv";
                    Json ps = Json::array();
                    int n = (int)g.range(0, 14);
                    for (int q = 0; q < n; q++)
                        ps.push(genPt());
                    op["ps"] = ps;
                }
                else
                {
                    op["op"] = "add";
                    op["p"] = genPt();
                }
            }
            else if (u < pAdd + pRm)
            {
                if (g.chance(0.1))
                {
                    op["op"] = "rm_absent";
                    op["p"] = genPt();
                }
                else
                {
                    op["op"] = "rm";
                    op["i"] = (long)g.range(0, 1000);
                }
            }
            else if (u < pAdd + pRm + 0.02)
                op["op"] = "clear";
            else
            {
                int q = (int)g.below(10);
                if (q < 3)
                {
                    op["op"] = "nn";
                    op["q"] = genPt();
                }
                else if (q < 6)
                {
                    op["op"] = "nnk";
                    op["q"] = genPt();
                    op["k"] = g.chance(0.1) ? (long)g.range(0, 1) : (long)g.range(1, g.chance(0.2) ? 200 : 12);
                }
                else if (q < 9)
                {
                    op["op"] = "nnr";
                    op["q"] = genPt();
                    if (metric == 2)
                        op["r"] = g.chance(0.1) ? 0.0 : g.real(0, g.chance(0.2) ? 2000.0 : 6.0);
                    else
                        op["r"] = g.chance(0.15) ? 0.0 : (double)g.range(0, g.chance(0.2) ? 3000 : 6);
                }
                else
                    op["op"] = "list";
            }
            ops.push(op);
        }
        plan["ops"] = ops;
        return plan;
    }

    inline sim::CaseResult run(const std::string &prop, const Json &plan)
    {
        sim::CaseResult res;
        std::string st = plan.gets("structure");
        const Json &prm = plan["params"];
        std::string ms = plan.gets("metric");
        int metric = ms == "l1" ? 0 : (ms == "linf" ? 1 : 2);
        int dim = (int)plan.geti("dim", 2);
        std::string pv = plan.gets("pivot", "seed");
        ompl::RNG::setSeed((std::uint_fast32_t)plan.geti("ompl_seed", 1));
        g_overrides = 0;
        g_pivotMode = pv == "low" ? 1 : (pv == "high" ? 2 : (pv == "alternate" ? 3 : 0));
        ompl::verif::rngOverride = &rngOverride;

        std::unique_ptr<ompl::NearestNeighbors<Pt>> nn;
        unsigned deg = (unsigned)prm.geti("degree", 8), mind = (unsigned)prm.geti("min_degree", 4),
                 maxd = (unsigned)prm.geti("max_degree", 12), leaf = (unsigned)prm.geti("leaf", 50),
                 cache = (unsigned)prm.geti("cache", 500);
        bool rebal = prm.getb("rebalancing");
        bool exactNearest = true;
        if (st == "gnat")
            nn.reset(new ompl::NearestNeighborsGNAT<Pt>(deg, mind, maxd, leaf, cache, rebal));
        else if (st == "gnat_nts")
            nn.reset(new ompl::NearestNeighborsGNATNoThreadSafety<Pt>(deg, mind, maxd, leaf, cache, rebal));
        else if (st == "linear")
            nn.reset(new ompl::NearestNeighborsLinear<Pt>());
        else
        {
            nn.reset(new ompl::NearestNeighborsSqrtApprox<Pt>());
            exactNearest = false;
        }
        long distCalls = 0;
        nn->setDistanceFunction([metric, &distCalls](const Pt &a, const Pt &b) {
            distCalls++;
            return dist(metric, a, b);
        });

        std::vector<Pt> live;  // reference model: the multiset the structure should hold
        int nextId = 0;
        uint64_t h = 1469598103934665603ULL;
        long removes = 0, queries = 0, maxLive = 0, removedWithCoincident = 0, bigK = 0, zeroR = 0;
        bool queriedAfterRemoval = false;
        std::string sfx = " structure=" + st;
        auto isLive = [&](int id) {
            for (auto &p : live)
                if (p.id == id)
                    return true;
            return false;
        };
        auto checkResult = [&](const char *what, size_t opIndex, const Pt &q, const std::vector<Pt> &got,
                               std::vector<double> expect) -> bool {
            // expect: sorted brute-force distances that must be returned (already truncated to k / radius)
            std::vector<double> gd;
            std::vector<int> ids;
            for (auto &p : got)
            {
                if (!isLive(p.id))
                {
                    res.violate(prop + ".returned-non-member" + sfx + " query=" + what,
                                fmt("op %zu: %s returned element #%d which is not in the structure (removed or never "
                                    "added)",
                                    opIndex, what, p.id));
                    return false;
                }
                ids.push_back(p.id);
                gd.push_back(dist(metric, q, p));
            }
            std::sort(ids.begin(), ids.end());
            if (std::adjacent_find(ids.begin(), ids.end()) != ids.end())
            {
                res.violate(prop + ".duplicate-in-result" + sfx + " query=" + what,
                            fmt("op %zu: %s returned the same element twice", opIndex, what));
                return false;
            }
            if (!std::is_sorted(gd.begin(), gd.end()))
            {
                res.violate(prop + ".unsorted-result" + sfx + " query=" + what,
                            fmt("op %zu: %s result not in non-decreasing distance order", opIndex, what));
                return false;
            }
            if (gd.size() != expect.size())
            {
                res.violate(prop + ".wrong-result-size" + sfx + " query=" + what,
                            fmt("op %zu: %s returned %zu elements, brute force %zu (live=%zu)", opIndex, what, gd.size(),
                                expect.size(), live.size()));
                return false;
            }
            for (size_t k = 0; k < gd.size(); k++)
                if (gd[k] != expect[k])
                {
                    res.violate(prop + ".wrong-distances" + sfx + " query=" + what,
                                fmt("op %zu: %s result[%zu] at distance %.17g, brute force %.17g", opIndex, what, k,
                                    gd[k], expect[k]));
                    return false;
                }
            for (double d : gd)
                h = sim::hashDouble(h, d);
            return true;
        };

        const auto &ops = plan["ops"].items();
        for (size_t oi = 0; oi < ops.size() && res.vclass.empty(); oi++)
        {
            const Json &op = ops[oi];
            std::string o = op.gets("op");
            if (o == "add")
            {
                Pt p = ptFrom(op["p"], dim);
                p.id = nextId++;
                nn->add(p);
                live.push_back(p);
            }
            else if (o == "addv")
            {
                std::vector<Pt> v;
                for (auto &pj : op["ps"].items())
                {
                    Pt p = ptFrom(pj, dim);
                    p.id = nextId++;
                    v.push_back(p);
                    live.push_back(p);
                }
                nn->add(v);
            }
            else if (o == "rm")
            {
                if (live.empty())
                    continue;
                size_t idx = (size_t)(op.geti("i") % (long)live.size());
                Pt p = live[idx];
                bool coincident = false;
                for (auto &x : live)
                    if (x.id != p.id && dist(metric, x, p) == 0)
                        coincident = true;
                bool ok = nn->remove(p);
                removes++;
                if (ok)
                    live.erase(live.begin() + (long)idx);
                else
                {
                    res.violate(prop + ".remove-refused-member" + sfx + (coincident ? " coincident=1" : " coincident=0"),
                                fmt("op %zu: remove(#%d) returned false although the element is in the structure%s",
                                    oi, p.id, coincident ? " (another live element lies at distance 0 from it)" : ""));
                }
                if (coincident)
                    removedWithCoincident++;
            }
            else if (o == "rm_absent")
            {
                Pt p = ptFrom(op["p"], dim);
                p.id = 1000000 + (int)oi;
                size_t before = nn->size();
                bool ok = nn->remove(p);
                if (ok || nn->size() != before)
                    res.violate(prop + ".removed-absent-element" + sfx,
                                fmt("op %zu: remove() of an element that was never added returned %d, size %zu -> %zu",
                                    oi, (int)ok, before, nn->size()));
            }
            else if (o == "clear")
            {
                nn->clear();
                live.clear();
            }
            else if (o == "nn")
            {
                if (live.empty())
                    continue;
                Pt q = ptFrom(op["q"], dim);
                Pt r = nn->nearest(q);
                queries++;
                double best = HUGE_VAL;
                for (auto &p : live)
                    best = std::min(best, dist(metric, q, p));
                if (exactNearest)
                    checkResult("nearest", oi, q, {r}, {best});
                else if (!isLive(r.id))
                    res.violate(prop + ".returned-non-member" + sfx + " query=nearest",
                                fmt("op %zu: nearest returned #%d which is not a current member", oi, r.id));
            }
            else if (o == "nnk" || o == "nnr")
            {
                Pt q = ptFrom(op["q"], dim);
                std::vector<double> all;
                for (auto &p : live)
                    all.push_back(dist(metric, q, p));
                std::sort(all.begin(), all.end());
                std::vector<Pt> got;
                if (o == "nnk")
                {
                    size_t k = (size_t)op.geti("k");
                    nn->nearestK(q, k, got);
                    if (k > live.size())
                        bigK++;
                    if (all.size() > k)
                        all.resize(k);
                    checkResult("nearestK", oi, q, got, all);
                }
                else
                {
                    double r = op.getd("r");
                    nn->nearestR(q, r, got);
                    if (r == 0)
                        zeroR++;
                    std::vector<double> in;
                    for (double d : all)
                        if (d <= r)
                            in.push_back(d);
                    checkResult("nearestR", oi, q, got, in);
                }
                queries++;
            }
            else if (o == "list")
            {
                std::vector<Pt> l;
                nn->list(l);
                std::vector<int> a, b;
                for (auto &p : l)
                    a.push_back(p.id);
                for (auto &p : live)
                    b.push_back(p.id);
                std::sort(a.begin(), a.end());
                std::sort(b.begin(), b.end());
                if (a != b)
                    res.violate(prop + ".list-mismatch" + sfx,
                                fmt("op %zu: list() has %zu elements, model %zu (or different members)", oi, a.size(),
                                    b.size()));
            }
            if (res.vclass.empty() && nn->size() != live.size())
                res.violate(prop + ".size-mismatch" + sfx,
                            fmt("op %zu (%s): size() = %zu, model %zu", oi, o.c_str(), nn->size(), live.size()));
            maxLive = std::max<long>(maxLive, (long)live.size());
            if (removes > 0 && (o == "nn" || o == "nnk" || o == "nnr"))
                queriedAfterRemoval = true;
            h = sim::hashU64(h, nn->size());
        }
        if (res.vclass.empty())
        {
            // final cross-check: list() equals the model
            std::vector<Pt> l;
            nn->list(l);
            std::vector<int> a, b;
            for (auto &p : l)
                a.push_back(p.id);
            for (auto &p : live)
                b.push_back(p.id);
            std::sort(a.begin(), a.end());
            std::sort(b.begin(), b.end());
            if (a != b)
                res.violate(prop + ".list-mismatch" + sfx, "final list() differs from the model");
        }
        ompl::verif::rngOverride = nullptr;
        g_pivotMode = 0;
        nn.reset();
        h = sim::hashU64(h, (uint64_t)distCalls);
        res.trace = h;
        bool split = maxLive > (long)leaf && st.compare(0, 4, "gnat") == 0;
        res.nontrivial = queries > 0 && maxLive >= 2 && (queriedAfterRemoval || split);
        res.sig = st + "/" + ms + (leaf < deg ? "/leaf<deg" : "/leaf>=deg") + (rebal ? "/rebal" : "") +
                  (queriedAfterRemoval ? "/q-after-rm" : "") + (split ? "/split" : "") +
                  (removedWithCoincident ? "/rm-coincident" : "") + (bigK ? "/k>size" : "") + (zeroR ? "/r=0" : "") +
                  fmt("/n%d", maxLive < 4 ? 0 : (maxLive < 16 ? 1 : (maxLive < 64 ? 2 : 3)));
        if (g_overrides || pv != "seed")
            res.faults["rng-extreme-draw(pivot)"] += g_overrides;
        res.probes["nn.query-after-removal"] += queriedAfterRemoval;
        res.probes["nn.k-larger-than-size"] += bigK;
        res.probes["nn.radius-zero"] += zeroR;
        res.probes["nn.removed-element-with-coincident-twin"] += removedWithCoincident;
        res.probes["nn.leaf-split"] += split;
        Json info = Json::object();
        info["queries"] = Json(queries);
        info["removes"] = Json(removes);
        info["max_live"] = Json(maxLive);
        info["distance_calls"] = Json(distCalls);
        res.info = info;
        return res;
    }

    inline std::vector<Json> simplifications(const Json &plan)
    {
        std::vector<Json> out;
        if (plan.gets("pivot") != "seed")
        {
            Json p = plan;
            p["pivot"] = "seed";
            out.push_back(p);
        }
        if (plan["params"].getb("rebalancing"))
        {
            Json p = plan;
            p["params"]["rebalancing"] = false;
            out.push_back(p);
        }
        // split addv into single adds is not order preserving for ids; shrink vectors instead
        const auto &ops = plan["ops"].items();
        for (size_t k = 0; k < ops.size(); k++)
            if (ops[k].gets("op") == "addv" && ops[k]["ps"].size() > 0)
            {
                Json p = plan;
                p["ops"].at(k)["ps"].items().pop_back();
                out.push_back(p);
            }
        return out;
    }
}  // namespace dsnn
