// C11 layer A: seeded histories over ompl::BinaryHeap refined against a multiset model.
#pragma once
#include "sim/runner.h"

#include <ompl/datastructures/BinaryHeap.h>

#include <algorithm>
#include <map>
#include <set>

namespace dsheap
{
    using sim::Json;
    using sim::fmt;

    struct Item
    {
        double key = 0;
        long id = -1;
    };
    struct Less
    {
        long *calls = nullptr;
        bool reverse = false;
        bool operator()(const Item &a, const Item &b) const
        {
            if (calls)
                ++*calls;
            return reverse ? a.key > b.key : a.key < b.key;
        }
    };
    using Heap = ompl::BinaryHeap<Item, Less>;

    inline Json generate(sim::Rng &g, bool thorough)
    {
        Json plan = Json::object();
        plan["kind"] = "heap";
        plan["reverse"] = g.chance(0.3);
        int keyspan = g.chance(0.4) ? (int)g.range(1, 4) : (int)g.range(5, 1000);  // few keys => many duplicates
        int nops = (int)g.range(4, thorough ? 200 : 60);
        double pIns = g.real(0.25, 0.6), pRm = g.real(0.05, 0.3), pUpd = g.real(0.05, 0.3);
        Json ops = Json::array();
        auto keys = [&](int n) {
            Json a = Json::array();
            for (int i = 0; i < n; i++)
                a.push(Json((double)g.range(0, keyspan)));
            return a;
        };
        for (int k = 0; k < nops; k++)
        {
            Json op = Json::object();
            double u = g.unit();
            if (u < pIns)
            {
                if (g.chance(0.12))
                {
                    op["op"] = "insertv";
                    op["keys"] = keys((int)g.range(0, 9));
                }
                else
                {
                    op["op"] = "insert";
                    op["key"] = (double)g.range(0, keyspan);
                }
            }
            else if (u < pIns + pRm)
            {
                op["op"] = "remove";
                op["h"] = (long)g.range(0, 1000);
            }
            else if (u < pIns + pRm + pUpd)
            {
                op["op"] = "update";
                op["h"] = (long)g.range(0, 1000);
                op["key"] = (double)g.range(0, keyspan);
            }
            else
            {
                int q = (int)g.below(20);
                if (q < 10)
                    op["op"] = "pop";
                else if (q < 12)
                    op["op"] = "rebuild";
                else if (q < 14)
                {
                    op["op"] = "buildfrom";
                    op["keys"] = keys((int)g.range(0, 12));
                }
                else if (q < 16)
                {
                    op["op"] = "sort";
                    op["keys"] = keys((int)g.range(0, 12));
                }
                else if (q < 17)
                    op["op"] = "clear";
                else
                    op["op"] = "content";
            }
            ops.push(op);
        }
        plan["ops"] = ops;
        return plan;
    }

    inline sim::CaseResult run(const std::string &prop, const Json &plan)
    {
        sim::CaseResult res;
        long cmpCalls = 0;
        Less lt;
        lt.calls = &cmpCalls;
        lt.reverse = plan.getb("reverse");
        auto before = [&](double a, double b) { return lt.reverse ? a > b : a < b; };  // strict order on keys
        Heap heap(lt);
        std::map<long, double> model;             // id -> key: the live elements
        // handles the "user" kept: returned by insert(), or captured through onAfterInsert for bulk inserts
        std::map<long, Heap::Element *> handles;
        struct Events
        {
            std::map<long, Heap::Element *> *handles;
            long inserted = 0, removed = 0;
        } events{&handles};
        heap.onAfterInsert(
            [](Heap::Element *e, void *arg) {
                auto *ev = static_cast<Events *>(arg);
                (*ev->handles)[e->data.id] = e;
                ev->inserted++;
            },
            &events);
        heap.onBeforeRemove([](Heap::Element *, void *arg) { static_cast<Events *>(arg)->removed++; }, &events);
        long nextId = 0;
        uint64_t h = 1469598103934665603ULL;
        long interiorRemovals = 0, removalsReplacementSmaller = 0, updates = 0, pops = 0, dupTops = 0;

        auto minKey = [&]() {
            bool first = true;
            double m = 0;
            for (auto &p : model)
                if (first || before(p.second, m))
                {
                    m = p.second;
                    first = false;
                }
            return m;
        };
        auto checkTop = [&](size_t oi, const std::string &o) {
            if (!res.vclass.empty())
                return;
            if (heap.size() != model.size() || heap.empty() != model.empty())
            {
                res.violate(prop + ".size-mismatch after=" + o,
                            fmt("op %zu (%s): size() = %u, model %zu", oi, o.c_str(), heap.size(), model.size()));
                return;
            }
            Heap::Element *t = heap.top();
            if (model.empty())
            {
                if (t != nullptr)
                    res.violate(prop + ".top-of-empty after=" + o, fmt("op %zu: top() of an empty heap is not null", oi));
                return;
            }
            if (t == nullptr)
            {
                res.violate(prop + ".top-null after=" + o, fmt("op %zu: top() is null but heap has elements", oi));
                return;
            }
            auto it = model.find(t->data.id);
            if (it == model.end() || it->second != t->data.key)
            {
                res.violate(prop + ".top-not-a-live-element after=" + o,
                            fmt("op %zu (%s): top() is element %ld key %g, which the model does not hold", oi,
                                o.c_str(), t->data.id, t->data.key));
                return;
            }
            double m = minKey();
            if (before(m, t->data.key))
                res.violate(prop + ".top-not-minimum after=" + o,
                            fmt("op %zu (%s): top() has key %g but a live element has key %g", oi, o.c_str(),
                                t->data.key, m));
        };
        auto checkHandles = [&](size_t oi, const std::string &o) {
            if (!res.vclass.empty())
                return;
            for (auto &p : handles)
            {
                auto it = model.find(p.first);
                if (it == model.end())
                    continue;
                if (p.second->data.id != p.first || p.second->data.key != it->second)
                {
                    res.violate(prop + ".handle-lost-its-element after=" + o,
                                fmt("op %zu (%s): handle of element %ld now shows id %ld key %g", oi, o.c_str(), p.first,
                                    p.second->data.id, p.second->data.key));
                    return;
                }
            }
        };

        const auto &ops = plan["ops"].items();
        for (size_t oi = 0; oi < ops.size() && res.vclass.empty(); oi++)
        {
            const Json &op = ops[oi];
            std::string o = op.gets("op");
            if (o == "insert")
            {
                Item it;
                it.key = op.getd("key");
                it.id = nextId++;
                Heap::Element *e = heap.insert(it);
                if (handles.count(it.id) == 0 || handles[it.id] != e)
                    res.violate(prop + ".insert-event-handle-mismatch",
                                fmt("op %zu: the handle passed to the after-insert event differs from the one insert() returned", oi));
                handles[it.id] = e;
                model[it.id] = it.key;
            }
            else if (o == "insertv" || o == "buildfrom")
            {
                std::vector<Item> v;
                if (o == "buildfrom")
                {
                    model.clear();
                    handles.clear();
                }
                for (auto &k : op["keys"].items())
                {
                    Item it;
                    it.key = k.d();
                    it.id = nextId++;
                    v.push_back(it);
                    model[it.id] = it.key;
                }
                if (o == "insertv")
                    heap.insert(v);
                else
                    heap.buildFrom(v);
            }
            else if (o == "remove" || o == "update")
            {
                if (handles.empty())
                    continue;
                auto it = handles.begin();
                std::advance(it, op.geti("h") % (long)handles.size());
                long id = it->first;
                Heap::Element *e = it->second;
                if (o == "remove")
                {
                    // probe: interior removal where the element moved into the hole (the last one) orders before
                    // the removed one, so it may have to travel towards the root
                    std::vector<Item> content;
                    heap.getContent(content);
                    bool interior = !content.empty() && content.back().id != id;
                    if (interior)
                    {
                        interiorRemovals++;
                        if (before(content.back().key, model[id]))
                            removalsReplacementSmaller++;
                    }
                    heap.remove(e);
                    model.erase(id);
                    handles.erase(it);
                }
                else
                {
                    e->data.key = op.getd("key");
                    model[id] = e->data.key;
                    heap.update(e);
                    updates++;
                }
            }
            else if (o == "pop")
            {
                if (model.empty())
                    continue;
                Heap::Element *t = heap.top();
                if (t == nullptr)
                {
                    res.violate(prop + ".top-null after=" + o, fmt("op %zu: top() null before pop", oi));
                    break;
                }
                long id = t->data.id;
                double key = t->data.key;
                double m = minKey();
                if (model.find(id) == model.end() || before(m, key))
                {
                    res.violate(prop + ".pop-not-minimum",
                                fmt("op %zu: pop() is about to remove key %g while a live element has key %g", oi, key, m));
                    break;
                }
                long same = 0;
                for (auto &p : model)
                    if (p.second == key)
                        same++;
                if (same > 1)
                    dupTops++;
                heap.pop();
                pops++;
                model.erase(id);
                handles.erase(id);
                h = sim::hashDouble(h, key);
            }
            else if (o == "rebuild")
                heap.rebuild();
            else if (o == "sort")
            {
                std::vector<Item> v;
                std::vector<double> expect;
                long sid = -1000;
                for (auto &k : op["keys"].items())
                {
                    Item it;
                    it.key = k.d();
                    it.id = sid--;
                    v.push_back(it);
                    expect.push_back(it.key);
                }
                heap.sort(v);
                std::sort(expect.begin(), expect.end(), before);
                bool ok = v.size() == expect.size();
                for (size_t k = 0; ok && k < v.size(); k++)
                    ok = v[k].key == expect[k];
                if (!ok)
                    res.violate(prop + ".sort-wrong", fmt("op %zu: sort() did not return the keys in order", oi));
            }
            else if (o == "clear")
            {
                heap.clear();
                model.clear();
                handles.clear();
            }
            else if (o == "content")
            {
                std::vector<Item> c;
                heap.getContent(c);
                std::multiset<std::pair<long, double>> a, b;
                for (auto &x : c)
                    a.insert({x.id, x.key});
                for (auto &p : model)
                    b.insert({p.first, p.second});
                if (a != b)
                    res.violate(prop + ".content-mismatch", fmt("op %zu: getContent() differs from the model", oi));
            }
            checkTop(oi, o);
            checkHandles(oi, o);
            h = sim::hashU64(h, heap.size());
        }
        // drain: popping everything yields all remaining elements in non-decreasing order
        if (res.vclass.empty())
        {
            std::vector<double> expect;
            for (auto &p : model)
                expect.push_back(p.second);
            std::sort(expect.begin(), expect.end(), before);
            std::vector<double> got;
            std::set<long> seen;
            while (!heap.empty() && got.size() <= expect.size() + 1)
            {
                Heap::Element *t = heap.top();
                if (!t)
                    break;
                got.push_back(t->data.key);
                if (!seen.insert(t->data.id).second || model.find(t->data.id) == model.end())
                {
                    res.violate(prop + ".drain-wrong-element",
                                fmt("drain: popped element %ld twice or it is not a live element", t->data.id));
                    break;
                }
                heap.pop();
            }
            if (res.vclass.empty() && got != expect)
            {
                size_t k = 0;
                while (k < got.size() && k < expect.size() && got[k] == expect[k])
                    k++;
                res.violate(prop + ".drain-out-of-order",
                            fmt("drain: pop #%zu returned key %g, expected %g (%zu of %zu elements)", k,
                                k < got.size() ? got[k] : -1.0, k < expect.size() ? expect[k] : -1.0, got.size(),
                                expect.size()));
            }
            for (double d : got)
                h = sim::hashDouble(h, d);
        }
        h = sim::hashU64(h, (uint64_t)cmpCalls);
        res.trace = h;
        res.nontrivial = interiorRemovals > 0 || updates > 0;
        res.sig = std::string("heap") + (lt.reverse ? "/rev" : "") + (interiorRemovals ? "/interior-rm" : "") +
                  (removalsReplacementSmaller ? "/rm-repl-smaller" : "") + (updates ? "/upd" : "") +
                  (dupTops ? "/dup-top" : "") + fmt("/ops%zu", ops.size() / 16);
        res.probes["heap.interior-removal"] += interiorRemovals;
        res.probes["heap.interior-removal-replacement-orders-before-removed"] += removalsReplacementSmaller;
        res.probes["heap.update"] += updates;
        res.probes["heap.pop-with-duplicate-min"] += dupTops;
        Json info = Json::object();
        info["pops"] = Json(pops);
        info["updates"] = Json(updates);
        info["interior_removals"] = Json(interiorRemovals);
        info["comparisons"] = Json(cmpCalls);
        res.info = info;
        return res;
    }
}  // namespace dsheap
