#include "engines/planners.h"

#include <ompl/datastructures/NearestNeighborsGNAT.h>
#include <ompl/datastructures/NearestNeighborsGNATNoThreadSafety.h>
#include <ompl/datastructures/NearestNeighborsLinear.h>
#include <ompl/datastructures/NearestNeighborsSqrtApprox.h>
#include <ompl/geometric/planners/rrt/RRT.h>
#include <ompl/geometric/planners/rrt/RRTConnect.h>
#include <ompl/geometric/planners/rrt/RRTstar.h>
#include <ompl/geometric/planners/rrt/InformedRRTstar.h>
#include <ompl/geometric/planners/rrt/SORRTstar.h>
#include <ompl/geometric/planners/rrt/RRTsharp.h>
#include <ompl/geometric/planners/rrt/RRTXstatic.h>
#include <ompl/geometric/planners/rrt/LazyRRT.h>
#include <ompl/geometric/planners/rrt/TRRT.h>
#include <ompl/geometric/planners/rrt/BiTRRT.h>
#include <ompl/geometric/planners/rrt/LBTRRT.h>
#include <ompl/geometric/planners/rrt/LazyLBTRRT.h>
#include <ompl/geometric/planners/rrt/pRRT.h>
#include <ompl/geometric/planners/informedtrees/BITstar.h>
#include <ompl/geometric/planners/informedtrees/ABITstar.h>
#include <ompl/geometric/planners/informedtrees/AITstar.h>
#include <ompl/geometric/planners/informedtrees/EITstar.h>
#include <ompl/geometric/planners/informedtrees/EIRMstar.h>
#include <ompl/geometric/planners/kpiece/KPIECE1.h>
#include <ompl/geometric/planners/kpiece/BKPIECE1.h>
#include <ompl/geometric/planners/kpiece/LBKPIECE1.h>
#include <ompl/geometric/planners/est/EST.h>
#include <ompl/geometric/planners/est/BiEST.h>
#include <ompl/geometric/planners/est/ProjEST.h>
#include <ompl/geometric/planners/sbl/SBL.h>
#include <ompl/geometric/planners/sbl/pSBL.h>
#include <ompl/geometric/planners/fmt/FMT.h>
#include <ompl/geometric/planners/fmt/BFMT.h>
#include <ompl/geometric/planners/prm/PRM.h>
#include <ompl/geometric/planners/prm/PRMstar.h>
#include <ompl/geometric/planners/prm/LazyPRM.h>
#include <ompl/geometric/planners/prm/LazyPRMstar.h>
#include <ompl/geometric/planners/prm/SPARS.h>
#include <ompl/geometric/planners/prm/SPARStwo.h>
#include <ompl/geometric/planners/stride/STRIDE.h>
#include <ompl/geometric/planners/pdst/PDST.h>
#include <ompl/geometric/planners/sst/SST.h>
#include <ompl/geometric/planners/rlrt/RLRT.h>
#include <ompl/geometric/planners/rlrt/BiRLRT.h>
#include <ompl/geometric/planners/cforest/CForest.h>
#include <ompl/geometric/planners/AnytimePathShortening.h>

#include <ompl/multilevel/planners/qmp/QMP.h>
#include <ompl/multilevel/planners/qmp/QMPStar.h>
#include <ompl/multilevel/planners/qrrt/QRRT.h>
#include <ompl/multilevel/planners/qrrt/QRRTStar.h>

namespace og = ompl::geometric;
namespace om = ompl::multilevel;

namespace planners
{
    namespace
    {
        // detect setNearestNeighbors<NN>() at compile time
        template <class P, class = void>
        struct HasNN : std::false_type
        {
        };
        template <class P>
        struct HasNN<P, std::void_t<decltype(std::declval<P &>().template setNearestNeighbors<ompl::NearestNeighborsLinear>())>>
          : std::true_type
        {
        };
        // BIT*/ABIT* declare the template but define it out of line (not instantiable from outside the library)
        template <class P>
        constexpr bool nnUsable = HasNN<P>::value && !std::is_base_of<og::BITstar, P>::value &&
                                  !std::is_base_of<og::LazyPRM, P>::value && !std::is_base_of<og::PRM, P>::value &&
                                  !std::is_same<og::SPARS, P>::value && !std::is_same<og::SPARStwo, P>::value;  // LazyPRM::setNearestNeighbors leaves the new structure
                                                                              // without a distance function (bad_function_call on first use;
                                                                              // library API defect outside the listed properties)
        template <class P>
        void applyNN(P &p, const std::string &nn)
        {
            if constexpr (nnUsable<P>)
            {
                if (nn == "gnat")
                    p.template setNearestNeighbors<ompl::NearestNeighborsGNAT>();
                else if (nn == "gnat_nts")
                    p.template setNearestNeighbors<ompl::NearestNeighborsGNATNoThreadSafety>();
                else if (nn == "linear")
                    p.template setNearestNeighbors<ompl::NearestNeighborsLinear>();
                else if (nn == "sqrt")
                    p.template setNearestNeighbors<ompl::NearestNeighborsSqrtApprox>();
            }
        }
        template <class P>
        ob::PlannerPtr mk(const ob::SpaceInformationPtr &si)
        {
            return std::make_shared<P>(si);
        }
        template <class P>
        void nnOf(ob::Planner *p, const std::string &nn)
        {
            if (auto *q = dynamic_cast<P *>(p))
                applyNN(*q, nn);
        }
        struct Entry
        {
            Info info;
            ob::PlannerPtr (*make)(const ob::SpaceInformationPtr &);
            void (*nn)(ob::Planner *, const std::string &);
        };
        template <class P>
        ob::PlannerPtr mkML(const ob::SpaceInformationPtr &si)
        {
            return std::make_shared<P>(si);  // non-multilevel mode: one space, no projection
        }
        void noNN(ob::Planner *, const std::string &)
        {
        }
#define EM(P) Entry{Info{#P, false, false, false, false, true}, &mkML<om::P>, &noNN}
#define E(P, threaded, pairwise, eager) Entry{Info{#P, threaded, pairwise, eager, false}, &mk<og::P>, &nnOf<og::P>}
        // pairwise: planner assembles the reported path only from (a,b) pairs it validated with checkMotion(a,b)
        //   in that orientation or the reverse for symmetric spaces (decided by reading each planner); a planner
        //   left out is merely judged by the weaker dense clause.
        // eagerCost: stored solution cost is the recomputed cost of the path (no deferred propagation).
        const std::vector<Entry> &table()
        {
            static const std::vector<Entry> t = {
                E(RRT, false, true, false),          E(RRTConnect, false, true, false),
                E(RRTstar, false, true, true),       E(InformedRRTstar, false, true, true),
                E(SORRTstar, false, true, true),     E(RRTsharp, false, true, false),
                E(RRTXstatic, false, true, false),   E(LazyRRT, false, true, false),
                E(TRRT, false, true, false),         E(BiTRRT, false, true, false),
                E(LBTRRT, false, true, false),       E(LazyLBTRRT, false, true, false),
                E(BITstar, false, true, true),       E(ABITstar, false, true, true),
                E(AITstar, false, true, true),       E(EITstar, false, true, true),
                E(EIRMstar, false, true, true),     E(KPIECE1, false, false, false),
                E(BKPIECE1, false, false, false),     E(LBKPIECE1, false, false, false),
                E(EST, false, true, false),          E(BiEST, false, true, false),
                E(ProjEST, false, true, false),      E(SBL, false, true, false),
                E(FMT, false, true, true),           E(BFMT, false, true, true),
                E(LazyPRM, false, true, false),      E(LazyPRMstar, false, true, false),
                E(STRIDE, false, false, false),       E(PDST, false, false, false),
                E(SST, false, true, false),          E(RLRT, false, false, false),
                E(BiRLRT, false, false, false),
                EM(QRRT),                            EM(QRRTStar),
                EM(QMP),                             EM(QMPStar),
                // threaded / wall-clock planners: only under the scheduler
                E(pRRT, true, true, false),          E(pSBL, true, true, false),
                E(PRM, true, true, false),           E(PRMstar, true, true, false),
                E(SPARS, true, false, false),        E(SPARStwo, true, false, false),
                E(CForest, true, true, true),        E(AnytimePathShortening, true, false, false),
            };
            return t;
        }
    }  // namespace

    const std::vector<Info> &geometric()
    {
        static std::vector<Info> v;
        if (v.empty())
            for (auto &e : table())
                v.push_back(e.info);
        return v;
    }
    const Info *findGeometric(const std::string &name)
    {
        for (auto &i : geometric())
            if (i.name == name)
                return &i;
        return nullptr;
    }
    ob::PlannerPtr makeGeometric(const std::string &name, const ob::SpaceInformationPtr &si)
    {
        for (auto &e : table())
            if (e.info.name == name)
                return e.make(si);
        return nullptr;
    }
    ob::PlannerPtr makeMultilevel(const std::string &name, std::vector<ob::SpaceInformationPtr> &siVec)
    {
        if (name == "QRRT")
            return std::make_shared<om::QRRT>(siVec);
        if (name == "QRRTStar")
            return std::make_shared<om::QRRTStar>(siVec);
        if (name == "QMP")
            return std::make_shared<om::QMP>(siVec);
        if (name == "QMPStar")
            return std::make_shared<om::QMPStar>(siVec);
        return nullptr;
    }
    void applyNearestNeighbors(const std::string &name, ob::Planner *p, const std::string &nn)
    {
        if (nn.empty())
            return;
        for (auto &e : table())
            if (e.info.name == name)
                e.nn(p, nn);
    }
}  // namespace planners
