// C13 layer A: seeded histories over ompl::Grid / GridN / GridB refined against a std::map model.
// Histories follow the API protocol the planners use: createCell immediately followed by add;
// remove immediately followed by destroyCell.
#pragma once
#include "sim/runner.h"

#include <ompl/datastructures/Grid.h>
#include <ompl/datastructures/GridN.h>
#include <ompl/datastructures/GridB.h>

#include <algorithm>
#include <map>
#include <set>

namespace dsgrid
{
    using sim::Json;
    using sim::fmt;

    struct Data
    {
        double prio = 0;
        long id = -1;
    };
    struct LessExt  // best border cell = smallest priority value
    {
        bool operator()(const Data &a, const Data &b) const
        {
            return a.prio < b.prio;
        }
    };
    struct LessInt  // best interior cell = largest priority value (different on purpose)
    {
        bool operator()(const Data &a, const Data &b) const
        {
            return a.prio > b.prio;
        }
    };
    using G0 = ompl::Grid<Data>;
    using GN = ompl::GridN<Data>;
    using GB = ompl::GridB<Data, LessExt, LessInt>;
    using CoordV = std::vector<int>;

    inline Json generate(sim::Rng &g, bool thorough)
    {
        Json plan = Json::object();
        plan["kind"] = "grid";
        static const char *vs[] = {"grid", "gridn", "gridb", "gridb"};
        std::string variant = g.pick(vs);
        plan["variant"] = variant;
        int dim = (int)g.range(1, g.chance(0.2) ? 6 : 3);
        plan["dim"] = dim;
        bool bounded = variant != "grid" && g.chance(0.5);
        int span = g.chance(0.6) ? (int)g.range(1, 3) : (int)g.range(4, 12);  // small span => dense neighbourhoods
        int off = g.chance(0.3) ? (int)g.range(-1000000, 1000000) : (int)g.range(-3, 0);
        plan["low"] = off;
        plan["high"] = off + span;
        plan["bounded"] = bounded;
        if (variant != "grid" && g.chance(0.5))
            plan["limit"] = (long)g.range(1, 2 * dim);
        int nops = (int)g.range(4, thorough ? 220 : 70);
        double pIns = g.real(0.35, 0.7), pRm = g.real(0.05, 0.3);
        Json ops = Json::array();
        auto coord = [&]() {
            Json a = Json::array();
            bool far = !bounded && g.chance(0.05);
            for (int i = 0; i < dim; i++)
                a.push(Json((long)(far ? g.range(-2000000000L, 2000000000L) : g.range(off, off + span))));
            return a;
        };
        for (int k = 0; k < nops; k++)
        {
            Json op = Json::object();
            double u = g.unit();
            if (u < pIns)
            {
                op["op"] = "insert";
                op["c"] = coord();
                op["prio"] = (double)g.range(0, 8);
            }
            else if (u < pIns + pRm)
            {
                op["op"] = "erase";
                op["i"] = (long)g.range(0, 1000);
            }
            else
            {
                int q = (int)g.below(20);
                if (q < 6)
                {
                    op["op"] = "update";
                    op["i"] = (long)g.range(0, 1000);
                    op["prio"] = (double)g.range(0, 8);
                }
                else if (q < 10)
                {
                    op["op"] = "lookup";
                    op["c"] = coord();
                }
                else if (q < 14)
                {
                    op["op"] = "neighbors";
                    op["c"] = coord();
                }
                else if (q < 17)
                    op["op"] = "components";
                else if (q < 18)
                    op["op"] = "clear";
                else if (q < 19)
                {
                    op["op"] = g.chance(0.5) ? "updateall" : "abandon";
                    op["c"] = coord();
                }
                else
                    op["op"] = "tops";
            }
            ops.push(op);
        }
        plan["ops"] = ops;
        return plan;
    }

    struct MCell
    {
        long id;
        double prio;
        G0::Cell *cell;
    };

    inline sim::CaseResult run(const std::string &prop, const Json &plan)
    {
        sim::CaseResult res;
        std::string variant = plan.gets("variant");
        int dim = (int)plan.geti("dim", 2);
        bool bounded = plan.getb("bounded");
        int low = (int)plan.geti("low"), high = (int)plan.geti("high");
        unsigned limit = plan.has("limit") ? (unsigned)plan.geti("limit") : 2u * (unsigned)dim;
        std::string sfx = " variant=" + variant;

        std::unique_ptr<G0> g0;
        GN *gn = nullptr;
        GB *gb = nullptr;
        if (variant == "grid")
            g0.reset(new G0((unsigned)dim));
        else if (variant == "gridn")
        {
            gn = new GN((unsigned)dim);
            g0.reset(gn);
        }
        else
        {
            gb = new GB((unsigned)dim);
            gn = gb;
            g0.reset(gb);
        }
        if (gn)
        {
            if (bounded)
            {
                G0::Coord lo(dim), up(dim);
                for (int i = 0; i < dim; i++)
                {
                    lo[i] = low;
                    up[i] = high;
                }
                gn->setBounds(lo, up);
            }
            if (plan.has("limit"))
                gn->setInteriorCellNeighborLimit(limit);
        }
        std::map<CoordV, MCell> model;
        long nextId = 0;
        uint64_t h = 1469598103934665603ULL;
        long flips = 0, emptyClassTop = 0, erases = 0, comps = 0, multiComp = 0, updates = 0, abandons = 0;

        auto toCoord = [&](const Json &a) {
            G0::Coord c(dim);
            for (int i = 0; i < dim; i++)
                c[i] = (int)a.at((size_t)i).i();
            return c;
        };
        auto toV = [&](const G0::Coord &c) {
            CoordV v((size_t)dim);
            for (int i = 0; i < dim; i++)
                v[(size_t)i] = c[i];
            return v;
        };
        auto modelNeighbors = [&](const CoordV &v) {
            std::vector<long> ids;
            for (int i = 0; i < dim; i++)
                for (int d = -1; d <= 1; d += 2)
                {
                    if ((d < 0 && v[(size_t)i] == INT32_MIN) || (d > 0 && v[(size_t)i] == INT32_MAX))
                        continue;
                    CoordV w = v;
                    w[(size_t)i] += d;
                    auto it = model.find(w);
                    if (it != model.end())
                        ids.push_back(it->second.id);
                }
            std::sort(ids.begin(), ids.end());
            return ids;
        };
        auto boundaryDims = [&](const CoordV &v) {
            unsigned n = 0;
            if (bounded)
                for (int i = 0; i < dim; i++)
                    if (v[(size_t)i] == low || v[(size_t)i] == high)
                        n++;
            return n;
        };
        auto gridNeighbors = [&](const G0::Coord &c) {
            std::vector<long> ids;
            if (gb)
            {
                GB::CellArray l;
                gb->neighbors(c, l);
                for (auto *x : l)
                    ids.push_back(x->data.id);
            }
            else if (gn)
            {
                GN::CellArray l;
                gn->neighbors(c, l);
                for (auto *x : l)
                    ids.push_back(x->data.id);
            }
            else
            {
                G0::CellArray l;
                g0->neighbors(c, l);
                for (auto *x : l)
                    ids.push_back(x->data.id);
            }
            std::sort(ids.begin(), ids.end());
            return ids;
        };
        std::map<long, bool> lastBorder;
        auto checkAll = [&](size_t oi, const std::string &o) {
            if (!res.vclass.empty())
                return;
            if (g0->size() != model.size() || g0->empty() != model.empty())
            {
                res.violate(prop + ".size-mismatch" + sfx + " after=" + o,
                            fmt("op %zu (%s): size() = %u, model %zu", oi, o.c_str(), g0->size(), model.size()));
                return;
            }
            long nInt = 0, nExt = 0;
            for (auto &p : model)
            {
                G0::Coord c(dim);
                for (int i = 0; i < dim; i++)
                    c[i] = p.first[(size_t)i];
                G0::Cell *cell = g0->getCell(c);
                if (cell != p.second.cell || !g0->has(c))
                {
                    res.violate(prop + ".lookup-mismatch" + sfx + " after=" + o,
                                fmt("op %zu (%s): getCell/has does not find present cell %ld", oi, o.c_str(), p.second.id));
                    return;
                }
                std::vector<long> mn = modelNeighbors(p.first);
                if (gridNeighbors(c) != mn)
                {
                    res.violate(prop + ".neighbors-mismatch" + sfx + " after=" + o,
                                fmt("op %zu (%s): neighbors(cell %ld) returned a different set than the %zu present "
                                    "cells at L1 distance 1",
                                    oi, o.c_str(), p.second.id, mn.size()));
                    return;
                }
                if (gn)
                {
                    auto *cn = static_cast<GN::Cell *>(cell);
                    unsigned expect = (unsigned)mn.size() + boundaryDims(p.first);
                    if (cn->neighbors != expect)
                    {
                        res.violate(prop + ".neighbor-count-mismatch" + sfx + " after=" + o,
                                    fmt("op %zu (%s): cell %ld counts %u neighbours, actual %zu + %u boundary dims", oi,
                                        o.c_str(), p.second.id, cn->neighbors, mn.size(), boundaryDims(p.first)));
                        return;
                    }
                    bool expectBorder = expect < limit;
                    if (cn->border != expectBorder)
                    {
                        res.violate(prop + ".border-flag-mismatch" + sfx + " after=" + o,
                                    fmt("op %zu (%s): cell %ld border=%d with %u neighbours, limit %u", oi, o.c_str(),
                                        p.second.id, (int)cn->border, expect, limit));
                        return;
                    }
                    auto lb = lastBorder.find(p.second.id);
                    if (lb != lastBorder.end() && lb->second != cn->border)
                        flips++;
                    lastBorder[p.second.id] = cn->border;
                    (cn->border ? nExt : nInt)++;
                }
            }
            if (gb)
            {
                if ((long)gb->countInternal() != nInt || (long)gb->countExternal() != nExt)
                {
                    res.violate(prop + ".queue-membership-mismatch" + sfx + " after=" + o,
                                fmt("op %zu (%s): countInternal/External = %u/%u, cells by flag %ld/%ld", oi, o.c_str(),
                                    gb->countInternal(), gb->countExternal(), nInt, nExt));
                    return;
                }
            }
        };
        auto checkTops = [&](size_t oi, const std::string &o, bool allowEmptyClass) {
            if (!gb || !res.vclass.empty() || model.empty())
                return;
            // best of each class by the functors
            bool haveI = false, haveE = false;
            double bestI = 0, bestE = 0;
            for (auto &p : model)
            {
                auto *cn = static_cast<GN::Cell *>(p.second.cell);
                if (cn->border)
                {
                    if (!haveE || p.second.prio < bestE)
                        bestE = p.second.prio;
                    haveE = true;
                }
                else
                {
                    if (!haveI || p.second.prio > bestI)
                        bestI = p.second.prio;
                    haveI = true;
                }
            }
            if ((!haveI || !haveE))
            {
                if (!allowEmptyClass)
                    return;
                emptyClassTop++;
            }
            GB::Cell *ti = gb->topInternal();
            GB::Cell *te = gb->topExternal();
            auto judge = [&](GB::Cell *t, bool wantBorder, bool haveClass, double best, const char *name) {
                if (!res.vclass.empty())
                    return;
                if (t == nullptr)
                {
                    res.violate(prop + ".top-null" + sfx + " which=" + name, fmt("op %zu (%s): %s() is null", oi, o.c_str(), name));
                    return;
                }
                bool border = t->border;
                if (haveClass)
                {
                    if (border != wantBorder || t->data.prio != best)
                        res.violate(prop + ".top-not-best" + sfx + " which=" + name,
                                    fmt("op %zu (%s): %s() is cell %ld (border=%d, priority %g); best %s cell has "
                                        "priority %g",
                                        oi, o.c_str(), name, t->data.id, (int)border, t->data.prio,
                                        wantBorder ? "border" : "interior", best));
                }
                else
                {
                    // documented fall-back: the top of the other queue
                    double other = wantBorder ? bestI : bestE;
                    if (border == wantBorder || t->data.prio != other)
                        res.violate(prop + ".top-fallback-wrong" + sfx + " which=" + name,
                                    fmt("op %zu (%s): %s() with its own class empty should fall back to the other "
                                        "queue's top",
                                        oi, o.c_str(), name));
                }
            };
            judge(ti, false, haveI, bestI, "topInternal");
            judge(te, true, haveE, bestE, "topExternal");
            if (ti)
                h = sim::hashU64(h, (uint64_t)ti->data.prio);
            if (te)
                h = sim::hashU64(h, (uint64_t)te->data.prio);
        };

        const auto &ops = plan["ops"].items();
        for (size_t oi = 0; oi < ops.size() && res.vclass.empty(); oi++)
        {
            const Json &op = ops[oi];
            std::string o = op.gets("op");
            if (o == "insert")
            {
                G0::Coord c = toCoord(op["c"]);
                CoordV v = toV(c);
                if (model.count(v))
                    continue;  // protocol: planners look a cell up before creating it
                G0::Cell *cell = gb ? static_cast<G0::Cell *>(gb->createCell(c)) : g0->createCell(c);
                cell->data.prio = op.getd("prio");
                cell->data.id = nextId++;
                if (gb)
                    gb->add(static_cast<GB::Cell *>(cell));
                else
                    g0->add(cell);
                model[v] = MCell{cell->data.id, cell->data.prio, cell};
            }
            else if (o == "abandon")
            {
                // a cell that is created for a free coordinate and given up again without ever being added
                // (createCell counts it among its neighbours' neighbours at once; remove() must undo exactly that and
                // report that the cell was not in the grid)
                G0::Coord c = toCoord(op["c"]);
                CoordV v = toV(c);
                if (model.count(v))
                    continue;
                G0::Cell *cell = gb ? static_cast<G0::Cell *>(gb->createCell(c)) : g0->createCell(c);
                cell->data.prio = 3;
                cell->data.id = -2;
                if (g0->remove(cell))
                    res.violate(prop + ".remove-accepted-absent-cell" + sfx, fmt("op %zu: remove() of a cell that was never added returned true", oi));
                g0->destroyCell(cell);
                abandons++;
            }
            else if (o == "erase")
            {
                if (model.empty())
                    continue;
                auto it = model.begin();
                std::advance(it, op.geti("i") % (long)model.size());
                G0::Cell *cell = it->second.cell;
                bool ok = g0->remove(cell);
                if (!ok)
                {
                    res.violate(prop + ".remove-refused-present-cell" + sfx, fmt("op %zu: remove() returned false", oi));
                    break;
                }
                g0->destroyCell(cell);
                lastBorder.erase(it->second.id);
                model.erase(it);
                erases++;
            }
            else if (o == "update")
            {
                if (model.empty() || !gb)
                    continue;
                auto it = model.begin();
                std::advance(it, op.geti("i") % (long)model.size());
                it->second.prio = op.getd("prio");
                it->second.cell->data.prio = it->second.prio;
                gb->update(static_cast<GB::Cell *>(it->second.cell));
                updates++;
            }
            else if (o == "updateall")
            {
                if (!gb)
                    continue;
                gb->updateAll();
            }
            else if (o == "lookup")
            {
                G0::Coord c = toCoord(op["c"]);
                bool present = model.count(toV(c)) > 0;
                if (g0->has(c) != present || (g0->getCell(c) != nullptr) != present)
                    res.violate(prop + ".lookup-mismatch" + sfx,
                                fmt("op %zu: has()/getCell() = %d/%d for a cell that is %s", oi, (int)g0->has(c),
                                    (int)(g0->getCell(c) != nullptr), present ? "present" : "absent"));
            }
            else if (o == "neighbors")
            {
                G0::Coord c = toCoord(op["c"]);
                if (gridNeighbors(c) != modelNeighbors(toV(c)))
                    res.violate(prop + ".neighbors-mismatch" + sfx + " after=query",
                                fmt("op %zu: neighbors(coord) differs from the present cells at L1 distance 1", oi));
            }
            else if (o == "components")
            {
                auto cc = g0->components();
                std::set<std::set<long>> got, expect;
                size_t total = 0;
                for (auto &comp : cc)
                {
                    std::set<long> s;
                    for (auto *c : comp)
                        s.insert(c->data.id);
                    total += comp.size();
                    got.insert(s);
                }
                // flood fill on the model
                std::map<long, CoordV> byId;
                for (auto &p : model)
                    byId[p.second.id] = p.first;
                std::set<long> seen;
                for (auto &p : model)
                {
                    if (seen.count(p.second.id))
                        continue;
                    std::set<long> s;
                    std::vector<long> stack{p.second.id};
                    while (!stack.empty())
                    {
                        long id = stack.back();
                        stack.pop_back();
                        if (!s.insert(id).second)
                            continue;
                        seen.insert(id);
                        for (long n : modelNeighbors(byId[id]))
                            if (!s.count(n))
                                stack.push_back(n);
                    }
                    expect.insert(s);
                }
                comps++;
                if (expect.size() > 1)
                    multiComp++;
                if (got != expect || total != model.size())
                    res.violate(prop + ".components-mismatch" + sfx,
                                fmt("op %zu: components() gives %zu components over %zu cells, flood fill gives %zu over "
                                    "%zu",
                                    oi, got.size(), total, expect.size(), model.size()));
                h = sim::hashU64(h, expect.size());
            }
            else if (o == "clear")
            {
                g0->clear();
                model.clear();
                lastBorder.clear();
            }
            else if (o == "tops")
            {
                checkAll(oi, o);
                checkTops(oi, o, true);
            }
            checkAll(oi, o);
            checkTops(oi, o, false);
            h = sim::hashU64(h, g0->size());
        }
        res.trace = h;
        res.nontrivial = model.size() + (size_t)erases >= 3 && (erases > 0 || comps > 0 || flips > 0);
        res.sig = variant + fmt("/d%d", dim) + (bounded ? "/bounded" : "") + (plan.has("limit") ? "/limit" : "") +
                  (erases ? "/erase" : "") + (flips ? "/flip" : "") + (multiComp ? "/multi-comp" : "") +
                  (updates ? "/upd" : "") + (emptyClassTop ? "/empty-class-top" : "") + fmt("/ops%zu", ops.size() / 20);
        res.probes["grid.border-flag-flipped"] += flips;
        res.probes["grid.top-with-one-class-empty"] += emptyClassTop;
        res.probes["grid.components-with-several-components"] += multiComp;
        res.probes["grid.erase"] += erases;
        res.probes["grid.cell-created-and-abandoned-without-add"] += abandons;
        Json info = Json::object();
        info["cells_at_end"] = Json((long)model.size());
        info["erases"] = Json(erases);
        info["flips"] = Json(flips);
        res.info = info;
        g0.reset();
        return res;
    }
}  // namespace dsgrid
