// C17: path post-processing (PathSimplifier routines, densifying, hybridization) on paths that real
// planners produced in generated worlds.  The simulator owns the routine's random stream (seed + H1
// bursts), the cancellation index of simplify(ptc)/findBetterGoal(ptc) (F1) and the clock of
// simplify(maxTime)/findBetterGoal(maxTime) (F3, simulated).
#pragma once
#include "sim/runner.h"
#include "sim/sched.h"
#include "engines/world.h"
#include "engines/rng_fault.h"

#include <ompl/base/DiscreteMotionValidator.h>
#include <ompl/base/objectives/PathLengthOptimizationObjective.h>
#include <ompl/geometric/PathHybridization.h>
#include <ompl/geometric/PathSimplifier.h>
#include <ompl/geometric/planners/rrt/RRTConnect.h>
#include <ompl/geometric/planners/rrt/RRT.h>

namespace c17
{
    using sim::Json;
    using sim::fmt;
    namespace ob = ompl::base;
    namespace og = ompl::geometric;

    // delegates to the real discrete validator and remembers every motion it declared valid
    class RecordingValidator : public ob::MotionValidator
    {
    public:
        RecordingValidator(const ob::SpaceInformationPtr &si) : ob::MotionValidator(si), real_(si), sp_(si->getStateSpace())
        {
        }
        ~RecordingValidator() override
        {
            clearLog();
        }
        bool checkMotion(const ob::State *a, const ob::State *b) const override
        {
            // (collapseCloseVertices spends O(n^2 log n) per step in its distance table and validates one motion per step)
            if (recording && (++polls & pollMask) == 0 && world::cpuSeconds() > cpuBudget)
                throw world::BudgetExhausted();
            bool ok = real_.checkMotion(a, b);
            if (ok && recording)
                log.emplace_back(sp_->cloneState(a), sp_->cloneState(b));
            return ok;
        }
        bool checkMotion(const ob::State *a, const ob::State *b, std::pair<ob::State *, double> &lv) const override
        {
            bool ok = real_.checkMotion(a, b, lv);
            if (ok && recording)
                log.emplace_back(sp_->cloneState(a), sp_->cloneState(b));
            return ok;
        }
        void clearLog() const
        {
            for (auto &p : log)
            {
                sp_->freeState(p.first);
                sp_->freeState(p.second);
            }
            log.clear();
        }
        mutable std::vector<std::pair<ob::State *, ob::State *>> log;
        bool recording = false;
        double cpuBudget = 1e9;
        mutable unsigned polls = 0;  // (getrusage on every call costs more system time than the motion checks themselves)
        unsigned pollMask = 31;      // 0 for routines that do a lot of work between two motion checks (collapseCloseVertices)

    private:
        ob::DiscreteMotionValidator real_;
        ob::StateSpacePtr sp_;
    };

    // A user-side objective that is exactly additive along a motion but not a metric: the integral of a piecewise
    // constant weight over the positional straight line (weight w beyond a cutting plane, 1 before it). A direct
    // connection can cost more than the stretch of path it would replace, so the cost comparisons of the cost-aware
    // routines decide something (under plain path length every valid shortcut wins and they are moot), and because
    // the cost of a motion is the sum of the costs of its pieces, "never worse under their own objective" is exact.
    class WeightedRegionObjective : public ob::OptimizationObjective
    {
    public:
        WeightedRegionObjective(const world::World *w, int axis, double cut, double weight, double wind = 0.0)
          : ob::OptimizationObjective(w->si), w_(w), axis_(axis), cut_(cut), weight_(weight), wind_(wind)
        {
            description_ = "weighted region length";
        }
        // with a "head wind" (a factor 1 + wind * cos(angle to the other axis), constant along a straight motion, so the
        // cost stays additive) the cost of a motion depends on its direction
        bool isSymmetric() const override
        {
            return wind_ == 0.0;
        }
        ob::Cost stateCost(const ob::State *) const override
        {
            return identityCost();
        }
        ob::Cost motionCost(const ob::State *a, const ob::State *b) const override
        {
            double p[3], q[3];
            w_->pos(a, p);
            w_->pos(b, q);
            double L = 0;
            for (int i = 0; i < w_->pdim; i++)
                L += (p[i] - q[i]) * (p[i] - q[i]);
            L = std::sqrt(L);
            double pa = p[axis_], qa = q[axis_];
            bool ha = pa >= cut_, hb = qa >= cut_;
            double dirFactor = 1.0;
            if (wind_ != 0.0 && L > 0)
                dirFactor = 1.0 + wind_ * (q[1 - axis_] - p[1 - axis_]) / L;
            L *= dirFactor;
            if (ha == hb)
                return ob::Cost(L * (ha ? weight_ : 1.0));
            double t = (cut_ - pa) / (qa - pa);  // fraction of the motion on a's side of the plane
            t = std::min(1.0, std::max(0.0, t));
            return ob::Cost(L * (t * (ha ? weight_ : 1.0) + (1.0 - t) * (hb ? weight_ : 1.0)));
        }

    private:
        const world::World *w_;
        int axis_;
        double cut_, weight_, wind_;
    };

    inline Json genOps(sim::Rng &g, bool thorough, bool directed = false)
    {
        Json ops = Json::array();
        int nops = (int)g.range(1, thorough ? 8 : 4);
        // direction-dependent (Dubins) worlds: the routines the library itself applies to non-metric spaces
        static const char *directedKinds[] = {"reduceVertices", "reduceVertices", "collapseCloseVertices", "simplify", "simplifyTimed", "simplifyMax"};
        static const char *kinds[] = {"reduceVertices", "ropeShortcutPath", "partialShortcutPath", "collapseCloseVertices", "smoothBSpline",
                                      "perturbPath", "findBetterGoal", "findBetterGoalTimed", "simplify", "simplifyTimed", "simplifyMax",
                                      "interpolateN", "interpolate", "subdivide", "hybridize"};
        for (int i = 0; i < nops; i++)
        {
            Json op = Json::object();
            op["op"] = g.pick(kinds);
            if (directed)
                op["op"] = g.pick(directedKinds);
            op["max_steps"] = (long)g.pick(std::vector<double>{0, 1, 5, 50});
            op["max_empty"] = (long)g.pick(std::vector<double>{0, 1, 5});
            op["range_ratio"] = g.pick(std::vector<double>{0.05, 0.33, 1.0});
            op["snap"] = g.pick(std::vector<double>{0.0, 0.005, 0.1});
            op["delta"] = g.pick(std::vector<double>{0.01, 0.3, 1.0, 10.0});
            op["tolerance"] = g.pick(std::vector<double>{0.001, 0.1, 1.0});  // 0 excluded: ropeShortcutPath then loops forever on rounding noise (sighted, App. B)
            op["step"] = g.pick(std::vector<double>{0.01, 0.1, 1.0});
            op["k"] = (long)g.pick(std::vector<double>{0, 1, 2, 5, 20, 200});
            op["time_ms"] = g.pick(std::vector<double>{0.0, 0.2, 2.0, 30.0});
            op["extra"] = (long)g.range(0, 40);
            op["with_objective"] = g.chance(0.5);
            op["with_goal"] = g.chance(0.6);
            if (g.chance(0.3))
                op["fault"] = rngfault::gen(g, 12);
            // (drawn last) the routine's own objective, when it is given one: path length or the weighted-region integral
            if (g.chance(0.5))
            {
                op["obj_axis"] = (long)g.range(0, 1);
                op["obj_cut"] = g.pick(std::vector<double>{0.25, 0.5, 0.6, 0.8});
                op["obj_weight"] = g.pick(std::vector<double>{0.15, 3.0, 6.0, 40.0});
                op["obj_wind"] = g.pick(std::vector<double>{0.0, 0.0, 0.6, 0.9, -0.9});
            }
            ops.push(op);
        }
        return ops;
    }

    // SO(3)'s distance() returns 0 for rotations closer than acos(1 - 1e-9) ~ 4.5e-5 rad, so on SE(3) the library's
    // distance is not a metric at that scale (not additive along a geodesic, triangle inequality off by up to 4.5e-5 per
    // hop). The oracle's geometric clauses (on-segment, never-longer, densify-keeps-length) are stated "in a metric
    // space", so on SE(3) they are evaluated with the exact quaternion metric instead.
    inline double gdist(const world::World &w, const ob::State *sa, const ob::State *sb)
    {
        if (w.kind != world::World::SE3)
            return w.ss->distance(sa, sb);
        auto *a = sa->as<ob::SE3StateSpace::StateType>();
        auto *b = sb->as<ob::SE3StateSpace::StateType>();
        double dx = a->getX() - b->getX(), dy = a->getY() - b->getY(), dz = a->getZ() - b->getZ();
        const auto &q = a->rotation(), &r = b->rotation();
        double m[4] = {q.x - r.x, q.y - r.y, q.z - r.z, q.w - r.w}, pl[4] = {q.x + r.x, q.y + r.y, q.z + r.z, q.w + r.w};
        double nm = std::sqrt(m[0] * m[0] + m[1] * m[1] + m[2] * m[2] + m[3] * m[3]);
        double np = std::sqrt(pl[0] * pl[0] + pl[1] * pl[1] + pl[2] * pl[2] + pl[3] * pl[3]);
        return std::sqrt(dx * dx + dy * dy + dz * dz) + 2.0 * std::atan2(std::min(nm, np), std::max(nm, np));
    }
    inline double glen(const world::World &w, const og::PathGeometric &p)
    {
        if (w.kind != world::World::SE3)
            return p.length();
        double L = 0;
        for (size_t i = 0; i + 1 < p.getStateCount(); i++)
            L += gdist(w, p.getState((unsigned)i), p.getState((unsigned)i + 1));
        return L;
    }

    // is y on the interpolation segment (a,b) (metric spaces whose interpolation follows their geodesic)?
    inline bool onSegment(const world::World &w, const ob::State *a, const ob::State *b, const ob::State *y, double scale)
    {
        return std::fabs(gdist(w, a, y) + gdist(w, y, b) - gdist(w, a, b)) <= 1e-7 * scale;
    }

    struct Ctx
    {
        world::WorldPtr w;
        std::shared_ptr<world::Query> q;
        std::shared_ptr<RecordingValidator> rec;
    };

    inline void judgeOp(sim::CaseResult &res, Ctx &c, const std::string &name, const og::PathGeometric &before, const og::PathGeometric &after,
                        bool goalMayChange, bool mustNotLengthen, bool validatedOnly, const ob::OptimizationObjectivePtr &obj, bool costAware,
                        bool inputDenseOk, const std::string &when, double workCap = 5e6)
    {
        const std::string P = "C17";
        auto &sp = c.w->ss;
        double scale = std::max(1.0, sp->getMaximumExtent());
        if (after.getStateCount() == 0)
        {
            res.violate(P + ".path-emptied routine=" + name, when + ": the routine left a path without states");
            return;
        }
        if (!sp->equalStates(before.getState(0), after.getState(0)))
        {
            res.violate(P + ".first-state-changed routine=" + name, when + ": the first state of the path changed");
            return;
        }
        const ob::State *lastB = before.getState(before.getStateCount() - 1), *lastA = after.getState(after.getStateCount() - 1);
        if (!sp->equalStates(lastB, lastA))
        {
            if (!goalMayChange)
            {
                res.violate(P + ".last-state-changed routine=" + name, when + ": the last state of the path changed");
                return;
            }
            if (!c.q->pdef->getGoal()->isSatisfied(lastA))
            {
                res.violate(P + ".new-last-state-not-in-goal routine=" + name, when + ": the last state was replaced by a state outside the goal");
                return;
            }
            res.probes["better-goal-accepted"]++;
        }
        if (validatedOnly)
        {
            // every consecutive pair of the output is an old pair, a motion the routine validated, or a piece of one of those
            size_t hint = 0;  // most motions of the result are motions of the input, in order: look there first
            double work = 0;
            for (size_t i = 0; i + 1 < after.getStateCount(); i++)
            {
                const ob::State *x = after.getState((unsigned)i), *y = after.getState((unsigned)i + 1);
                bool ok = sp->equalStates(x, y);
                for (size_t k = hint; !ok && k + 1 < before.getStateCount() && k < hint + 3; k++)
                    if (sp->equalStates(before.getState((unsigned)k), x) && sp->equalStates(before.getState((unsigned)k + 1), y))
                    {
                        ok = true;
                        hint = k + 1;
                    }
                // (where the distance is direction-dependent a piece of a motion counts only in the direction it was validated)
                const bool directedSpace = !sp->hasSymmetricDistance();
                auto inOrder = [&](const ob::State *a) { return !directedSpace || gdist(*c.w, a, x) <= gdist(*c.w, a, y) + 1e-7 * scale; };
                for (size_t k = 0; !ok && k + 1 < before.getStateCount(); k++)
                {
                    const ob::State *a = before.getState((unsigned)k), *b = before.getState((unsigned)k + 1);
                    ok = onSegment(*c.w, a, b, x, scale) && onSegment(*c.w, a, b, y, scale) && inOrder(a);
                    work++;
                    if (ok)
                        hint = k;
                }
                for (size_t k = 0; !ok && k < c.rec->log.size(); k++, work++)
                    ok = onSegment(*c.w, c.rec->log[k].first, c.rec->log[k].second, x, scale) && onSegment(*c.w, c.rec->log[k].first, c.rec->log[k].second, y, scale) &&
                         inOrder(c.rec->log[k].first);
                if (work > workCap)
                {
                    res.inconclusive = true;
                    res.probes["history-grew-too-large-to-judge"]++;
                    return;
                }
                if (!ok)
                {
                    // how far from lying on any single old / validated motion?
                    double best = HUGE_VAL;
                    auto slack = [&](const ob::State *a, const ob::State *b) {
                        double ex = std::fabs(gdist(*c.w, a, x) + gdist(*c.w, x, b) - gdist(*c.w, a, b));
                        double ey = std::fabs(gdist(*c.w, a, y) + gdist(*c.w, y, b) - gdist(*c.w, a, b));
                        best = std::min(best, std::max(ex, ey));
                    };
                    for (size_t k = 0; k + 1 < before.getStateCount(); k++)
                        slack(before.getState((unsigned)k), before.getState((unsigned)k + 1));
                    for (auto &l : c.rec->log)
                        slack(l.first, l.second);
                    res.violate(P + ".unvalidated-motion-introduced routine=" + name,
                                when + fmt(": motion %zu -> %zu of the result (length %.6g) is neither part of the input path nor of a motion the routine validated "
                                           "(closest single motion misses by %.3g; %zu motions validated; checkMotion now says %d)",
                                           i, i + 1, gdist(*c.w, x, y), best, c.rec->log.size(), (int)c.w->si->checkMotion(x, y)));
                    return;
                }
            }
            if (inputDenseOk)
            {
                world::SegmentVerdict sv = world::denseCheck(*c.w, const_cast<og::PathGeometric &>(after).getStates());
                if (sv.worstRunSteps >= 2.0)
                {
                    res.violate(P + ".result-crosses-invalid-space routine=" + name,
                                when + fmt(": motion %zu of the result stays in invalid space for %.2f resolution lengths", sv.worstSegment, sv.worstRunSteps));
                    return;
                }
            }
        }
        if (mustNotLengthen && sp->isMetricSpace() && glen(*c.w, after) > glen(*c.w, before) * (1 + 1e-9) + 1e-12)
        {
            res.violate(P + ".path-got-longer routine=" + name, when + fmt(": length %.12g -> %.12g", glen(*c.w, before), glen(*c.w, after)));
            return;
        }
        if (costAware && obj)
        {
            double cb = before.cost(obj).value(), ca = after.cost(obj).value();
            if (obj->isCostBetterThan(ob::Cost(cb), ob::Cost(ca)) && std::fabs(ca - cb) > 1e-9 * std::max(1.0, std::fabs(cb)))
                res.violate(P + ".path-cost-worsened routine=" + name, when + fmt(": cost %.12g -> %.12g under the routine's own objective", cb, ca));
        }
    }

    inline sim::CaseResult run(const sim::Options &o, const Json &plan)
    {
        sim::CaseResult res;
        const std::string P = "C17";
        ompl::RNG::setSeed((std::uint_fast32_t)plan.geti("ompl_seed", 1));
        Ctx c;
        c.w = world::build(plan["world"]);
        c.rec = std::make_shared<RecordingValidator>(c.w->si);
        c.w->si->setMotionValidator(c.rec);
        c.w->si->setup();
        c.q = world::makeQuery(c.w, plan["queries"].at(0));
        if (!c.q->anyValidStart || !c.q->anyValidGoal)
        {
            res.sig = "c17/unusable-query";
            return res;
        }
        // the input path: what a real planner produces here
        og::PathGeometricPtr path;
        std::vector<og::PathGeometricPtr> alternatives;
        for (int attempt = 0; attempt < 3; attempt++)
        {
            ob::PlannerPtr pl;
            if (attempt == 1 || c.w->curved)  // (RRTConnect grows its goal tree backwards: not for direction-dependent spaces)
                pl = std::make_shared<og::RRT>(c.w->si);
            else
                pl = std::make_shared<og::RRTConnect>(c.w->si);
            auto pd = world::makeQuery(c.w, plan["queries"].at(0));
            pl->setProblemDefinition(pd->pdef);
            pl->setup();
            long n = 0;
            ob::PlannerTerminationCondition ptc([&] { return n++ >= 4000; });
            if (pl->solve(ptc) == ob::PlannerStatus::EXACT_SOLUTION)
            {
                auto p = std::make_shared<og::PathGeometric>(*pd->pdef->getSolutionPath()->as<og::PathGeometric>());
                if (!path)
                    path = p;
                alternatives.push_back(p);
            }
            pl.reset();
        }
        if (!path || path->getStateCount() < 2)
        {
            res.sig = "c17/no-input-path";
            res.info["input"] = "planner found no exact path";
            return res;
        }
        if (plan.geti("degenerate", 0) >= 2)
        {
            // synthetic variation: a valid path of total length 0 (the start state, n times)
            auto dp = std::make_shared<og::PathGeometric>(c.w->si);
            for (long i = 0; i < plan.geti("degenerate", 0); i++)
                dp->append(path->getState(0));
            path = dp;
            res.probes["zero-length-input-path"]++;
        }
        if (plan.getb("repeat_states") && path->getStateCount() >= 2)
        {
            // synthetic variation: repeated states / zero-length segments
            path->getStates().insert(path->getStates().begin() + 1, c.w->ss->cloneState(path->getState(1)));
            path->getStates().push_back(c.w->ss->cloneState(path->getStates().back()));
        }
        bool inputDenseOk = world::denseCheck(*c.w, path->getStates()).worstRunSteps < 2.0;
        auto lengthObj = std::make_shared<ob::PathLengthOptimizationObjective>(c.w->si);
        uint64_t h = 1469598103934665603ULL;
        long judged = 0, rngFaults = 0;
        std::string kinds;
        const auto &ops = plan["ops"].items();
        for (size_t oi = 0; oi < ops.size() && res.vclass.empty(); oi++)
        {
            const Json &op = ops[oi];
            std::string k = op.gets("op");
            kinds += (kinds.empty() ? "" : "+") + k;
            og::PathGeometric before(*path);
            ob::OptimizationObjectivePtr obj = op.getb("with_objective") ? lengthObj : nullptr;
            bool regionObj = false;
            if (obj && op.has("obj_weight") && !c.w->curved)
            {
                obj = std::make_shared<WeightedRegionObjective>(c.w.get(), (int)op.geti("obj_axis"), c.w->lo + op.getd("obj_cut") * (c.w->hi - c.w->lo),
                                                                op.getd("obj_weight"), op.getd("obj_wind", 0.0));
                if (op.getd("obj_wind", 0.0) != 0.0)
                    res.probes["routine-given-a-direction-dependent-objective"]++;
                regionObj = true;
                res.probes["routine-given-a-non-metric-additive-objective"]++;
            }
            ob::GoalPtr goal = op.getb("with_goal") ? c.q->pdef->getGoal() : ob::GoalPtr();
            og::PathSimplifier ps(c.w->si, goal, obj);
            unsigned ms = (unsigned)op.geti("max_steps"), me = (unsigned)op.geti("max_empty");
            double rr = op.getd("range_ratio", 0.33), snap = op.getd("snap", 0.005);
            bool f5 = rngfault::arm(op["fault"]);
            std::string when = fmt("op %zu (%s%s, %zu states in)", oi, k.c_str(), f5 ? ", extreme-draw burst" : "", before.getStateCount());
            c.rec->clearLog();
            c.rec->recording = true;
            bool goalMayChange = false, mustNotLengthen = false, validatedOnly = true, costAware = false;
            long evals = 0, kmax = op.geti("k", 5);
            ob::PlannerTerminationCondition ptc([&] { return evals++ >= kmax; });
            bool simClock = k == "simplifyTimed" || k == "findBetterGoalTimed";
            if (simClock)
            {
                sim::sched::Config cfg;
                cfg.seed = 1;
                cfg.policy = sim::sched::RUN_TO_BLOCK;
                cfg.costNs = 20000;
                c.w->onValidityCall = [] { sim::sched::yield(); };
                sim::sched::start(cfg);
                res.faults["F3-simulated-clock"]++;
            }
            // step budget: the routines have no termination condition of their own (ropeShortcutPath with a small delta
            // is cubic in the path length); a case that runs out is inconclusive, not a hang
            bool outOfBudget = false;
            c.w->validBudget = c.w->validCalls.load() + (o.thorough() ? 6000000 : 1500000);
            c.w->cpuBudget = o.thorough() ? 8.0 : 4.0;  // CPU seconds of the whole case (the hard limit is 30 / 10)
            world::ledger().cpuBudget = c.rec->cpuBudget = c.w->cpuBudget;
            c.rec->pollMask = k == "collapseCloseVertices" ? 0 : 31;
            world::ledger().armed = true;
            try
            {
                if (k == "reduceVertices")
                {
                    ps.reduceVertices(*path, ms, me, rr);
                    mustNotLengthen = true;
                }
                else if (k == "ropeShortcutPath")
                {
                    ps.ropeShortcutPath(*path, op.getd("delta", 1.0), op.getd("tolerance", 0.1));
                    mustNotLengthen = true;
                    costAware = regionObj;
                }
                else if (k == "partialShortcutPath")
                {
                    ps.partialShortcutPath(*path, ms, me, rr, snap);
                    mustNotLengthen = true;
                    costAware = true;
                }
                else if (k == "collapseCloseVertices")
                {
                    // (its table of all pairwise distances is searched completely before every single motion check: with more
                    // than 1500 states one step alone takes seconds in the ASan build, out of reach of the step budget)
                    if (path->getStateCount() <= 1500)
                        ps.collapseCloseVertices(*path, ms, me);
                    else
                        res.probes["collapseCloseVertices-skipped(path-longer-than-1500-states)"]++;
                    mustNotLengthen = true;
                }
                else if (k == "smoothBSpline")
                    ps.smoothBSpline(*path, std::min(ms, 6u));
                else if (k == "perturbPath")
                {
                    ps.perturbPath(*path, op.getd("step", 0.1) * c.w->ss->getMaximumExtent() * 0.1, ms, me, snap);
                    costAware = true;
                    obj = obj ? obj : lengthObj;  // perturbPath falls back to path length itself
                }
                else if (k == "findBetterGoal" || k == "findBetterGoalTimed")
                {
                    if (!goal)
                    {
                        goal = c.q->pdef->getGoal();
                    }
                    og::PathSimplifier psg(c.w->si, goal, obj);
                    if (k == "findBetterGoal")
                    {
                        psg.findBetterGoal(*path, ptc, (unsigned)std::max<long>(1, op.geti("max_steps")), rr, snap);
                        res.faults["F1-cancel-at-kth-ptc-evaluation"]++;
                    }
                    else
                        psg.findBetterGoal(*path, op.getd("time_ms") / 1000.0, 10, rr, snap);
                    goalMayChange = true;
                    costAware = true;
                    obj = obj ? obj : lengthObj;
                }
                else if (k == "simplify" || k == "simplifyTimed" || k == "simplifyMax")
                {
                    bool ok;
                    if (k == "simplify")
                    {
                        ok = ps.simplify(*path, ptc);
                        res.faults["F1-cancel-at-kth-ptc-evaluation"]++;
                    }
                    else if (k == "simplifyTimed")
                        ok = ps.simplify(*path, op.getd("time_ms") / 1000.0);
                    else
                        ok = ps.simplifyMax(*path);
                    goalMayChange = (bool)goal;
                    if (ok && !path->check())
                        res.violate(P + ".simplify-true-but-path-invalid routine=" + k, when + ": simplify reported success but path.check() is false");
                    if (!ok)
                    {
                        // the combined routine smooths first and repairs afterwards; when the repair fails it says so by
                        // returning false and the caller is told the path may touch invalid space: nothing more is promised
                        validatedOnly = false;
                        res.probes["simplify-reported-failure"]++;
                    }
                }
                else if (k == "interpolateN" || k == "interpolate" || k == "subdivide")
                {
                    validatedOnly = false;  // densifying: no new motions, a rider on the path the simulation produced
                    size_t nb = before.getStateCount();
                    if (k == "interpolateN")
                    {
                        unsigned want = (unsigned)(nb + (size_t)op.geti("extra"));
                        path->interpolate(want);
                        if (path->getStateCount() != want)
                            res.violate(P + ".interpolate-count-wrong", when + fmt(": interpolate(%u) produced %zu states", want, path->getStateCount()));
                    }
                    else if (k == "interpolate")
                        path->interpolate();
                    else
                    {
                        path->subdivide();
                        if (path->getStateCount() != 2 * nb - 1)
                            res.violate(P + ".subdivide-count-wrong", when + fmt(": subdivide() turned %zu states into %zu", nb, path->getStateCount()));
                    }
                    // original vertices present in order, length unchanged
                    size_t j = 0;
                    for (size_t i = 0; i < nb && res.vclass.empty(); i++)
                    {
                        while (j < path->getStateCount() && !c.w->ss->equalStates(path->getState((unsigned)j), before.getState((unsigned)i)))
                            j++;
                        if (j >= path->getStateCount())
                            res.violate(P + ".densify-lost-a-vertex routine=" + k, when + fmt(": original vertex %zu is not present (in order) in the densified path", i));
                        else
                            j++;
                    }
                    double lb = glen(*c.w, before), la = glen(*c.w, *path);
                    if (res.vclass.empty() && std::fabs(la - lb) > 1e-9 * std::max(1.0, lb))
                        res.violate(P + ".densify-changed-length routine=" + k, when + fmt(": length %.12g -> %.12g", lb, la));
                }
                else  // hybridize: never worse than the best recorded input
                {
                    validatedOnly = false;
                    og::PathHybridization hy(c.w->si);
                    if (op.geti("extra") % 2 == 1)
                    {
                        // the object was used for an earlier batch and cleared (what ParallelPlan does between queries)
                        hy.recordPath(std::make_shared<og::PathGeometric>(before), false);
                        for (auto it = alternatives.rbegin(); it != alternatives.rend(); ++it)
                        {
                            auto shifted = std::make_shared<og::PathGeometric>(**it);
                            if (shifted->getStateCount() > 2)
                            {
                                ob::State *gone = shifted->getStates()[1];
                                shifted->getStates().erase(shifted->getStates().begin() + 1);
                                c.w->si->freeState(gone);
                            }
                            hy.recordPath(shifted, false);
                        }
                        hy.computeHybridPath();
                        hy.clear();
                        res.probes["hybridization-object-reused-after-clear"]++;
                    }
                    double best = HUGE_VAL;
                    for (auto &alt : alternatives)
                    {
                        hy.recordPath(alt, op.getb("with_goal"));
                        best = std::min(best, alt->length());
                    }
                    hy.recordPath(std::make_shared<og::PathGeometric>(*path), false);
                    best = std::min(best, path->length());
                    hy.computeHybridPath();
                    const og::PathGeometricPtr &hp = hy.getHybridPath();
                    if (hp)
                    {
                        if (hp->length() > best * (1 + 1e-9) + 1e-12)
                            res.violate(P + ".hybrid-path-worse-than-best-input", when + fmt(": hybrid path length %.12g, best recorded input %.12g", hp->length(), best));
                        // (the statement asks nothing else of the hybrid path; re-checking its pieces pairwise would
                        // blame sub-resolution obstacles between the check points of the validated input motions)
                        h = sim::hashDouble(h, hp->length());
                    }
                }
            }
            catch (ompl::Exception &ex)
            {
                res.probes["routine-refused(ompl::Exception)"]++;
            }
            catch (world::BudgetExhausted &)
            {
                outOfBudget = true;
            }
            c.w->validBudget = -1;
            world::ledger().armed = false;
            if (simClock)
            {
                sim::sched::Stats st = sim::sched::stop();
                c.w->onValidityCall = nullptr;
                res.simSeconds += st.simSeconds;
            }
            c.rec->recording = false;
            rngFaults += rngfault::disarm();
            if (outOfBudget)
            {
                res.inconclusive = true;
                res.probes["step-budget-exhausted"]++;
                break;
            }
            if (getenv("C17_DEBUG"))
            {
                fprintf(stderr, "== op %zu %s before:\n", oi, k.c_str());
                before.printAsMatrix(std::cerr);
                fprintf(stderr, "== after:\n");
                path->printAsMatrix(std::cerr);
                fprintf(stderr, "== validated:\n");
                for (auto &l : c.rec->log)
                {
                    og::PathGeometric t(c.w->si, l.first, l.second);
                    t.printAsMatrix(std::cerr);
                    auto sv = world::denseCheck(*c.w, t.getStates());
                    fprintf(stderr, "   recheck=%d nseg=%u own=%u dense=%.2f lvs=%g factor=%u\n", (int)c.w->si->checkMotion(l.first, l.second),
                            c.w->ss->validSegmentCount(l.first, l.second), world::ownSegmentCount(c.w->ss.get(), l.first, l.second, c.w->requestedFraction), sv.worstRunSteps,
                            c.w->ss->getLongestValidSegmentLength(), c.w->ss->getValidSegmentCountFactor());
                }
            }
            if (res.vclass.empty() && k != "hybridize")
            {
                if (validatedOnly || goalMayChange)
                    judgeOp(res, c, k, before, *path, goalMayChange, mustNotLengthen, validatedOnly, obj, costAware, inputDenseOk, when, o.thorough() ? 1e7 : 5e6);
                judged++;
                if (res.inconclusive)
                    break;
            }
            h = sim::hashDouble(h, path->length());
            h = sim::hashU64(h, path->getStateCount());
            inputDenseOk = inputDenseOk && world::denseCheck(*c.w, path->getStates()).worstRunSteps < 2.0;
        }
        c.rec->clearLog();
        path.reset();
        alternatives.clear();
        res.trace = h;
        res.nontrivial = judged > 0;
        res.sig = "c17/" + plan["world"].gets("space") + "/" + kinds + (rngFaults ? "/rngfault" : "");
        res.faults["F5-extreme-draw-burst(H1)"] += rngFaults;
        res.probes["routines-judged"] += judged;
        Json info = Json::object();
        info["judged"] = Json(judged);
        res.info = info;
        c.q.reset();
        c.rec.reset();
        c.w->si->setMotionValidator(std::make_shared<ob::DiscreteMotionValidator>(c.w->si));
        c.w.reset();
        (void)o;
        return res;
    }
}  // namespace c17
