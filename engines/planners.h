// Registry of the shipped planners (factory by name) and the capability data the generators use.
#pragma once
#include <ompl/base/Planner.h>
#include <ompl/control/SpaceInformation.h>
#include <string>
#include <vector>

namespace planners
{
    namespace ob = ompl::base;
    struct Info
    {
        std::string name;
        bool threaded = false;     // owns threads / wall-clock windows: only run under the scheduler + simulated clock
        bool pairwise = false;     // C01 pairwise whitelist: path built only from motions validated as exactly that pair
        bool eagerCost = false;    // C04 equality whitelist: stored cost equals the recomputed cost of the path
        bool needsObjective = false;
        bool multilevel = false;   // ompl::multilevel planner: can also be built over a sequence of spaces (makeMultilevel)
    };
    const std::vector<Info> &geometric();
    const Info *findGeometric(const std::string &name);
    ob::PlannerPtr makeGeometric(const std::string &name, const ob::SpaceInformationPtr &si);
    // nn: "" (planner default) | gnat | gnat_nts | linear | sqrt   (ignored by planners without a usable
    // setNearestNeighbors<>). Call it after setProblemDefinition() + setup(): several planners' setNearestNeighbors
    // dereference members that only setup() creates (e.g. TRRT), which is an API wart outside the listed properties.
    void applyNearestNeighbors(const std::string &name, ob::Planner *p, const std::string &nn);
    // multilevel planners over a sequence of spaces, lowest-dimensional first (projections guessed by the library)
    ob::PlannerPtr makeMultilevel(const std::string &name, std::vector<ob::SpaceInformationPtr> &siVec);

    const std::vector<Info> &control();
    ob::PlannerPtr makeControl(const std::string &name, const ompl::control::SpaceInformationPtr &si);
}  // namespace planners
