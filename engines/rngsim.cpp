// rngsim: samplers under a simulator-owned random stream (seed + extreme-draw bursts through hook H1).
// Serves C08 (bounds), C15 (informed sampling), C16 (constrained spaces: samplers, interpolation, geodesics).
#include "sim/runner.h"
#include "engines/rng_c08.h"
#ifdef RNGSIM_C15
#include "engines/rng_c15.h"
#endif
#ifdef RNGSIM_C16
#include "engines/rng_c16.h"
#endif

#include <ompl/util/Console.h>

using sim::Json;

class RngSim : public sim::Engine
{
public:
    std::string name() const override
    {
        return "rngsim";
    }
    long defaultCases(const sim::Options &) const override
    {
        return 100000000;
    }
    int cpuLimit(const sim::Options &) const override
    {
        return 5;
    }
    void init(const sim::Options &) override
    {
        ompl::msg::noOutputHandler();
        rngfault::install();
    }
    Json generate(const sim::Options &o, uint64_t caseSeed, long) override
    {
        sim::Rng g(caseSeed);
#ifdef RNGSIM_C15
        if (o.prop == "C15")
            return c15::generate(g, o.thorough());
#endif
#ifdef RNGSIM_C16
        if (o.prop == "C16")
            return c16::generate(g, o.thorough());
#endif
        return c08::generate(g, o.thorough());
    }
    sim::CaseResult run(const sim::Options &, const Json &plan) override
    {
        std::string k = plan.gets("kind");
#ifdef RNGSIM_C15
        if (k == "c15")
            return c15::run(plan);
#endif
#ifdef RNGSIM_C16
        if (k == "c16")
            return c16::run(plan);
#endif
        return c08::run(plan);
    }
    std::string rule(const sim::Options &o) const override
    {
        if (o.prop == "C15")
            return "case = informed sampler (direct path-length, rejection, ordered wrapper) x R^n (n=2..8) / SE(2) / SE(3) x "
                   "1-3 starts x 1-3 goals x bounds that do or do not cut the spheroid x cost bound from just above the "
                   "focal distance to 100x it x optional lower bound x numIters (1..1000) x seed, with extreme-draw bursts "
                   "(hook H1) that force rejection streaks and boundary radii. non-trivial = at least one successful "
                   "informed sample was judged; distinct = distinct (sampler, space, dimension, #starts, #goals, bound class, "
                   "fault) signatures";
        if (o.prop == "C16")
            return "case = constraint manifold (sphere, torus, plane, sphere-and-plane; ambient dimension 3-6) x constrained "
                   "space (projected, atlas, tangent bundle) x delta / lambda / tolerance / max iterations x seed; ops: "
                   "uniform / near / Gaussian sampling, valid-state sampling, interpolate, discreteGeodesic, with injected "
                   "projection failures (F7) and extreme-draw bursts (F5); 10% of cases plan with RRT / RRTConnect / KPIECE1 / "
                   "PRM-free planners on top and judge the path vertices. non-trivial = at least one constrained state was "
                   "judged; distinct = distinct (manifold, space kind, op kinds, fault kinds) signatures";
        return "case = state space (R^n, SO(2), SO(3), SE(2), SE(3), time, discrete, torus, sphere, Moebius, Klein bottle, "
               "Dubins, Reeds-Shepp, Owen, Vana, Vana-Owen, wrapper, nested weighted compounds) x bounds class (ordinary, "
               "negative, zero-width, 1e100, 1e-9 wide) x seed x 3-24 ops (uniform / near / Gaussian sampling with distance "
               "or sigma from 0 to 1e12, the six valid-state samplers with 1-100 attempts over always-valid / never-valid / "
               "35%-invalid predicates, enforceBounds on displaced states), 35% of the ops with an extreme-draw burst "
               "injected through hook H1 (draws j..j+m replaced by 0, 1-2^-53, 1/2, +-8 sigma). non-trivial = at least one "
               "sampled state was judged; distinct = distinct (space, bounds class, op kinds, fault, validity mode) signatures";
    }
    std::vector<std::string> realComponents(const sim::Options &o) const override
    {
        if (o.prop == "C15")
            return {"PathLengthDirectInfSampler", "RejectionInfSampler", "OrderedInfSampler", "InformedSampler base",
                    "ProlateHyperspheroid", "RNG::uniformProlateHyperspheroid[Surface] / uniformInBall", "ompl::RNG"};
        if (o.prop == "C16")
            return {"ProjectedStateSpace", "AtlasStateSpace + AtlasChart", "TangentBundleStateSpace", "ConstrainedStateSpace",
                    "Constraint::project (Newton)", "constrained samplers / valid-state samplers", "planners on top", "ompl::RNG"};
        return {"state samplers of every shipped state space", "CompoundStateSampler / wrapper samplers",
                "the six ValidStateSampler classes", "enforceBounds / satisfiesBounds", "ompl::RNG (distributions, hook H1 on raw draws)"};
    }
    std::vector<std::string> stubComponents(const sim::Options &o) const override
    {
        if (o.prop == "C16")
            return {"constraint functions (harness: closed-form manifolds, projection failure injected on demand)",
                    "raw random draws when a burst is armed (hook H1)", "state validity checker (harness)"};
        return {"raw random draws when a burst is armed (hook H1)", "state validity checker (harness: closed form)"};
    }
    std::vector<std::string> assumptions(const sim::Options &o) const override
    {
        if (o.prop == "C15")
            return {"uniformity is a statistical rider with thresholds at p < 1e-9 (can miss small biases)",
                    "start/goal pairs are separated by more than the library's 1e-9 circle tolerance"};
        if (o.prop == "C08")
            return {"|bound| <= 1e100 (overflow of hi-lo is a precondition, not a finding)",
                    "the enforceBounds clause is a pure function: a rider on the simulated state stream"};
        return {};
    }
};

int main(int argc, char **argv)
{
    RngSim e;
    return sim::engineMain(e, argc, argv);
}
