#!/usr/bin/env python3
"""Regenerates MANIFEST.json from the table below (kept in one place so it stays valid)."""
import json, subprocess, os
VERIF = os.path.dirname(os.path.abspath(__file__))

HOOK_COMMITS = ["53cc68daa"]  # H1: RNG draw override

NA = {
 "C05": "checkMotion is a deterministic, state-free function of (s1, s2, validity predicate): no RNG, clock, I/O, retry, history or thread in it; choosing the predicate's answers is input generation, not fault injection. Its user-visible failure (invalid solution paths) is caught by C01's dense re-validation, its shared counters under concurrency by C19.",
 "C06": "distance / getMaximumExtent / equalStates are closed-form pure functions of their state arguments: no schedule, fault, history or random stream to simulate.",
 "C07": "interpolate is a closed-form pure function of (from, to, t): nothing for a simulator to own.",
 "C14": "Dubins / Reeds-Shepp distance and interpolation are closed-form pure functions of two poses and a radius: nothing for a simulator to own.",
}

CHECKS = {
 "C01": dict(engine="plansim", cat="exploration", ref="DESIGN.md 4/C01",
   text="Seeded search over whole-planner runs: each of the 33 single-threaded geometric planners (round-robin) on generated worlds (R^n, SE(2), SE(3), weighted compound, Reeds-Shepp for directed planners; balls, boxes and sub-resolution slabs; 1-3 starts incl. invalid / out-of-bounds ones; state / multi-state / non-sampleable region goals; thresholds from epsilon), with swarm-chosen planner knobs, nearest-neighbour structure and seed, one or two solves cancelled at a simulator-chosen termination-condition evaluation (fault F1). Every path added is judged by the path oracle (valid in-bounds start, bounds, goal / approximate-flag / difference agreement, dense re-validation with the world's own closed-form predicate against the 2-resolution-step bound using an independently computed segment count, pairwise checkMotion re-check for whitelisted planners) and the status oracle.",
   note="Trusted: the world's closed-form validity predicate, StateSpace::interpolate/distance (C06/C07 are not applicable here), the hand-maintained pairwise whitelist (an omission only weakens a clause). Threaded / wall-clock planners are covered under the scheduler in C19. Crashes are judged by C03, not here.",
   technique="deterministic simulation: seeded whole-planner runs with cancellation-point fault injection, path/status oracles, shrinking + replay"),
 "C03": dict(engine="plansim", cat="fault_enumeration", ref="DESIGN.md 4/C03",
   text="Fault enumeration of the cancellation point: for each generated base case (planner round-robin over 33 single-threaded geometric planners, world, query, knobs, seed) the first solve() is cancelled at EVERY termination-condition evaluation index k = 0..39 (quick) / 0..151 (thorough) plus 8 geometrically spaced larger k beyond the first solution, each in its own forked child (plain and ASan/UBSan builds), followed by a generated history of continued solves, getPlannerData, clear / clearQuery / new problem definition. Judged after every op: bounded return (<=10^4 further PTC evaluations, <=10^6 further validity checks), status truth against what the problem definition holds, no empty / wrongly rooted / goal-missing path, no crash or sanitizer report, no free of a non-live state, zero live states at process exit (ledger over the real allocState/freeState), continued solves never worsen the top solution, no state of the previous query in paths of the new one.",
   note="Trusted: the state ledger mix-in and the world predicate. States are accounted at process exit after static destructors (BIT*-family retention by design). Non-state memory leaks are outside the statement (LSan off). setup() twice and pdef->clearSolutionPaths() between solves are outside the quantified calls and not generated. Known findings (LazyLBTRRT, LBTRRT, BFMT resume) are listed in known_findings.json.",
   technique="deterministic simulation: enumeration of the cancellation index per base case + seeded histories, fork-per-case, ASan/UBSan + state ledger as oracles, shrinking + replay"),
 "C04": dict(engine="plansim", cat="exploration", ref="DESIGN.md 4/C04",
   text="Seeded search over (a-d) histories of 1-4 continued solves, cut at simulator-chosen termination-condition evaluations, of the 19 cost-aware single-threaded planners (round-robin) under path length (with/without threshold), state-cost integral, mechanical work, max-min clearance and weighted multi-objective on generated worlds: after every solve each stored solution cost is compared with the recomputed path->cost(objective) (never better; equal for eager planners), with the straight-line admissible bound, the optimized flag with isSatisfied(stored cost), and the best stored cost must not worsen; (e) generated multisets of exact / approximate / objective-satisfying solutions with many ties, minimising and maximising objectives, added one by one to a ProblemDefinition: after every add getSolutions() must be a permutation of what was added, ordered by a reference comparator written from the statement, and the top-solution accessors must agree with element 0.",
   note="Trusted: the reference comparator and cost recomputation via PathGeometric::cost. Solution sets that mix solutions with and without a recorded objective are counted, not judged (the statement does not define 'lower cost' for such a pair). Concurrent adds to a shared problem definition are C19's surface.",
   technique="deterministic simulation: seeded resume histories with cancellation-point fault injection + reference-model comparison of the solution set, shrinking + replay"),
 "C18": dict(engine="ptcsim", cat="exploration", ref="DESIGN.md 4/C18",
   text="Seeded search over histories on the real termination-condition classes under the serialising scheduler and simulated clock: 1-5 base conditions (scripted predicate; periodically evaluated predicate, whose poller is the library's own std::thread running as a simulator thread and sleeping on simulated time; timed; timed with check interval; iteration count; always; never; exact-solution; cost-convergence) plus or/and/copy combinators, driven by 1-3 simulated caller threads through eval / terminate-from-another-thread / predicate flip / forward clock jump / clock stall / sleep / add solution / report solution cost, under random, PCT, round-robin or run-to-block scheduling with optional bounded starvation. Every eval is compared with a reference model evaluated on the same history (value must agree with the model state at invocation or at return; periodic forms: safety during the history, liveness after a settle of one period); 8% of the cases run Planner::solve(double) on an infeasible world and bound its return in simulated time.",
   note="Trusted: the reference model (~150 lines) and the scheduler/clock interposers. Backward steps of the system clock are outside the quantifier and not injected. Timed conditions are not judged within 1 us of their deadline.",
   technique="deterministic simulation: real threads parked/released by a seeded scheduler, simulated clock via link-time interposition, history vs reference model, shrinking + replay"),
 "C19": dict(engine="concsim+plansim", cat="exploration", ref="DESIGN.md 4/C19",
   text="(A, TSan build) 2-16 simulated caller threads execute generated operations on shared objects through the documented thread-safe surface (shared SpaceInformation isValid/checkMotion, shared GNAT queries with a non-empty removal cache, RNG and StateSpace construction, ProblemDefinition add/get solutions, logging, terminate vs eval) in a seeded serial order; the scheduler's futex hand-off is compiled outside TSan, so TSan reports exactly the conflicting accesses the library itself does not order, deterministically; functional results (motion counters == calls, queries == brute force, no lost solution, distinct RNG seeds / space names) are compared with the sequential answers. (B, ASan build) the threaded planners pRRT, pSBL, CForest, PRM, PRM*, SPARS, SPARStwo, AnytimePathShortening run as real threads under the seeded scheduler and simulated clock (interleaving chosen at every mutex operation, validity call, sleep, thread start/exit; optional starvation, external terminate() from another simulated thread, lazily produced goals), judged by the C01 path/status oracle, deadlock detection, ASan/UBSan.",
   note="Trusted: the scheduler and interposers; TSan's finite shadow history (op sequences kept <= 400). Preemption happens only at yield points, so a lost update inside a plain ++ cannot be executed here; it is detected by TSan's happens-before analysis in part A. Races inside a planner's private state are not in the statement and not judged (part B runs without TSan).",
   technique="deterministic simulation: seeded serialising scheduler over real threads (link-time interposed pthread/clock/sleep), TSan as race oracle with invisible hand-off, path/status oracles, shrinking + replay"),
 "C08": dict(engine="rngsim", cat="exploration", ref="DESIGN.md 4/C08",
   text="Seeded search with fault injection on the randomness seam: every shipped state space (R^n, SO(2), SO(3), SE(2), SE(3), time, discrete, torus, sphere, Moebius, Klein bottle, Dubins, Reeds-Shepp, Owen, Vana, Vana-Owen, wrapper, nested weighted compounds) under five bounds classes (ordinary, negative, zero-width, 1e100, 1e-9 wide) is driven through histories of uniform / near / Gaussian sampling (distance or sigma from 0 to 1e9), the six valid-state samplers (1-100 attempts; always-valid, never-valid and 35%-invalid closed-form predicates) and enforceBounds on displaced states; 35% of the ops run with an extreme-draw burst injected through hook H1 (raw draws j..j+m replaced by 0, 1-2^-53, 1/2, +-8 sigma). Every sampled state must satisfy the bounds; a valid-state sampler that reports success must have written an in-bounds, valid state (a false return is retry exhaustion and claims nothing); ASan/UBSan clean.",
   note="Trusted: satisfiesBounds as the judge of 'inside', the harness predicates. On curved spaces (Dubins family) the validity predicate includes the bounds, as the library's documentation asks of users. Coordinates of 1e100 are not generated for curved spaces (outside their numeric domain). The enforceBounds clause is a pure function, checked as a rider on the simulated state stream.",
   technique="deterministic simulation: seeded sampler histories with RNG-draw fault injection (hook H1), shrinking + replay"),
 "C15": dict(engine="rngsim", cat="exploration", ref="DESIGN.md 4/C15",
   text="Seeded search with fault injection on the randomness seam over the informed samplers (direct path-length, rejection, ordered wrapper over either) on R^2..R^8, SE(2), SE(3) with 1-3 starts, 1-3 goals, bounds that do or do not cut the spheroid, cost bounds from 1.0000001x to 100x the focal distance, optional lower bound, 1-1000 iterations, with extreme-draw bursts (hook H1) that force rejection streaks, boundary radii and both ends of the PHS-choice draw. On success: in bounds, heuristicSolnCost strictly below the bound (recomputed independently from the foci as well), not below the lower bound; prolate-hyperspheroid surface points sum to the transverse diameter (1e-9), interior points do not exceed it; getInformedMeasure equals the analytic volume (1e-9, single start/goal); statistical rider: radial chi-square and half-space test of 20000 direct samples mapped back to the unit ball (thresholds beyond p = 1e-14).",
   note="Trusted: the analytic formulas in the harness. A false return (retry exhaustion) is legal and claims nothing. Uniformity is a statistical rider and can miss small biases; overlap density with several PHSs is not judged.",
   technique="deterministic simulation: seeded sampler histories with RNG-draw fault injection (hook H1), analytic oracles, shrinking + replay"),
 "C16": dict(engine="rngsim", cat="exploration", ref="DESIGN.md 4/C16",
   text="Seeded search with fault injection over the three constrained spaces (projected, atlas, tangent bundle) on closed-form manifolds (sphere, torus, plane, sphere-and-plane circle; ambient dimension 3-6) with swarm-chosen delta, lambda, tolerance, iteration limit, bounds (containing or cutting the manifold) and an optional obstacle: histories of raw uniform / near / Gaussian sampling, valid-state sampling (1-100 attempts), interpolate, discreteGeodesic, and (12% of cases) RRT / RRTConnect / KPIECE1 / EST planning on top cancelled at a chosen PTC evaluation. Faults: F7 - the harness Constraint reports projection failure at simulator-chosen calls (a legal outcome callers must handle); F5 - extreme-draw bursts through hook H1. Judged: valid-state sampler successes, interpolated states, every state of a successful geodesic (projected, atlas) and every vertex of a reported path satisfy the constraint within tolerance; consecutive geodesic states are at most lambda*delta apart and a successful geodesic ends within delta of its target (projected, atlas).",
   note="Raw StateSampler outputs are judged only where a failure cannot legitimately occur (compact manifold inside the bounds, no injected or observed projection failure, no extreme-draw burst): the StateSampler interface cannot report a failed projection and the samplers clamp to the bounds after projecting, so elsewhere off-manifold raw samples exist on the unchanged tree; they are counted by cause in evidence (DESIGN App. B.8) and the valid-state sampler is what is judged there. Trusted: the closed-form constraint functions and Jacobians of the harness.",
   technique="deterministic simulation: seeded histories with projection-failure and RNG-draw fault injection, cancellation of planners on top, shrinking + replay"),
 "C09": dict(engine="iosim", cat="fault_enumeration", ref="DESIGN.md 4/C09",
   text="Fault enumeration on the stream seam: generated state sets and planner-data graphs (geometric, and with controls and durations) over generated nested state spaces (R^n, SO(2), SO(3), SE(2), SE(3), time, discrete, weighted compounds up to depth 3) are stored through a simulated ostream and loaded through a simulated istream. Fault-free: the loaded set / graph must equal the original element by element (equalStates and bitwise serialisation, tags, start/goal marks, edge weights, controls, durations). Faulted: truncation at EVERY byte offset of every generated archive (enumerated), short reads of 1/2/7 bytes per refill (must be invisible), disk full on the write side at sampled offsets, overwritten archive marker, loading into a space with a different signature: the load must be reported (false / WARN-ERROR message) and what the object then holds must be an exact prefix of the original; no exception may escape; ASan/UBSan clean.",
   note="Trusted: the harness streambufs and comparison code. 'Reported' for StateStorage (void load) means a WARN/ERROR log message. Leaks on the rejected path are outside the statement (LSan off). In-memory copy/clone/serialize/reals/partial-copy round trips are a rider on the simulated state stream (pure functions). A streambuf that throws is not among the corruptions the statement lists and is not injected.",
   technique="deterministic simulation: enumeration of the truncation offset per archive + sampled write-side and substitution faults on simulated streams, reference comparison, shrinking + replay"),
 "C20": dict(engine="plansim", cat="exploration", ref="DESIGN.md 4/C20",
   text="Seeded search in which the faults are everything that must NOT matter (F9): each case (single-threaded geometric planner, round-robin over 33; generated world, knobs, nearest-neighbour structure, seed; one or two solves cancelled by an evaluation-count termination condition) is executed in three SEPARATELY STARTED processes (exec, so the seed is set before any RNG exists): ASLR off without padding; ASLR on with 1-900 heap pre-allocations of random sizes and up to 6 kB of extra environment; ASLR on with 1-3000 pre-allocations, up to 20 kB of environment and unrelated earlier work in the process (spaces, states, problem definitions; no RNG). Each prints the hash of (statuses, PTC evaluation counts, validity-call counts, every solution path state, 48 draws + 3 Gaussians of the next three RNGs created); the three lines must be identical. Also: setLocalSeed(s) after arbitrary use (cached second Gaussian, quaternion, spherical generators) reproduces the stream of a fresh RNG(s).",
   note="Trusted: the process launcher and the hash. Planners that own threads are excluded by the statement (they are made reproducible by the scheduler in C19-B). Control and multilevel planners are not in the registry of this engine yet. A run that crashes or exhausts its deterministic step budget is counted inconclusive here (crashes are C03's).",
   technique="deterministic simulation: cross-process replay of seeded cases under address-layout / heap / environment / history perturbations, hash comparison, shrinking + replay"),
 "C10": dict(engine="dssim", cat="exploration", ref="DESIGN.md 4/C10",
   text="Seeded search over op histories (add/add(vector)/remove/clear/nearest/nearestK/nearestR/list) on the real GNAT, GNAT-no-thread-safety, linear and sqrt-approx structures with swarm-chosen tree parameters, exact-tie metrics and simulator-owned pivot draws (hook H1), refined op by op against a brute-force reference model, under ASan/UBSan. Sampling, not enumeration: a clean run is evidence.",
   note="Trusted: the harness's metric functions and brute-force model (~60 lines). Assumes a single caller thread (concurrency is C19).",
   technique="deterministic simulation: seeded history search vs executable reference model, RNG-draw fault injection (H1), ddmin shrinking + replay"),
 "C11": dict(engine="dssim", cat="exploration", ref="DESIGN.md 4/C11",
   text="Seeded search over insert/insert(vector)/remove(handle)/update/pop/rebuild/buildFrom/sort/clear histories on the real BinaryHeap with duplicate-rich keys, checked after every op against a multiset model (top is a minimum, size, handle identity) and by a final drain, under ASan/UBSan.",
   note="Trusted: the multiset model. Comparator is a strict weak order supplied by the harness.",
   technique="deterministic simulation: seeded history search vs executable reference model, ddmin shrinking + replay"),
 "C12": dict(engine="dssim", cat="exploration", ref="DESIGN.md 4/C12",
   text="Seeded search over construct/add/update/remove/clear/sample histories on the real PDF in two separated configurations: exact (dyadic weights; the selection rule is demanded exactly, r on every interval boundary +-1ulp, 0 and 1) and drift (weight ratios up to 1e16; rule demanded within the accumulated rounding bound, memory safety demanded absolutely by ASan).",
   note="Trusted: prefix-sum model; in the drift configuration the rounding bound is an over-approximation (may miss a wrong pick that lands within it).",
   technique="deterministic simulation: seeded history search vs executable reference model, ASan as memory oracle, ddmin shrinking + replay"),
 "C13": dict(engine="dssim", cat="exploration", ref="DESIGN.md 4/C13",
   text="Seeded search over createCell+add / remove+destroyCell / update / updateAll / lookup / neighbors / components / clear / top histories on the real Grid, GridN and GridB (dimension 1-6, bounds, interior-neighbour limits, far-apart and negative coordinates), compared after every op with a std::map model: lookups, symmetric L1 neighbourhoods, flood-fill components, neighbour counts, border flags, queue membership counts and tops incl. the fall-back when one class is empty.",
   note="Trusted: the map model. Histories follow the create-then-add / remove-then-destroy protocol the planners use; coordinates stay inside the configured bounds when bounds are set.",
   technique="deterministic simulation: seeded history search vs executable reference model, ddmin shrinking + replay"),
}

PENDING = {}

def main():
    props = [json.loads(l) for l in open(os.path.join(VERIF, "properties.jsonl"))]
    checks, na = [], []
    for p in props:
        pid = p["id"]
        if pid in CHECKS:
            c = CHECKS[pid]
            checks.append(dict(property_id=pid, quick_cmd="./check %s --tier quick" % pid,
                               thorough_cmd="./check %s --tier thorough" % pid,
                               evidence_file="/verif/evidence/%s.json" % pid,
                               replay_cmd_template="./check %s --replay {path}" % pid, engine=c["engine"],
                               level_claimed=dict(category=c["cat"], text=c["text"], design_ref=c["ref"]),
                               level_note=c["note"], technique=c["technique"]))
        elif pid in NA:
            na.append(dict(property_id=pid, reason="not applicable to deterministic simulation: " + NA[pid]))
        else:
            na.append(dict(property_id=pid, reason=PENDING.get(pid, "not claimed yet: the check for this property is designed (DESIGN.md 4) but not built/registered at this commit")))
    engines = [
        dict(name="plansim", path="engines/plansim.cpp", serves_properties=["C01", "C03", "C04", "C19", "C20"],
             kind_free_text="whole real planners on generated worlds, one forked child per case, cancellation at chosen PTC evaluation, op histories"),
        dict(name="ptcsim", path="engines/ptcsim.cpp", serves_properties=["C18"],
             kind_free_text="termination-condition histories under the seeded scheduler and simulated clock vs a reference model"),
        dict(name="concsim", path="engines/concsim.cpp", serves_properties=["C19"],
             kind_free_text="thread-safe surface under a seeded serial order in a TSan build (hand-off invisible to TSan)"),
        dict(name="rngsim", path="engines/rngsim.cpp", serves_properties=["C08", "C15", "C16"],
             kind_free_text="sampler histories under a simulator-owned random stream: seed + extreme-draw bursts through hook H1"),
        dict(name="iosim", path="engines/iosim.cpp", serves_properties=["C09"],
             kind_free_text="store/load of state sets and planner data through simulated streams with enumerated truncation and sampled write/substitution faults"),
        dict(name="dssim", path="engines/dssim.cpp", serves_properties=["C10", "C11", "C12", "C13"],
             kind_free_text="in-process seeded op histories on the real data structures vs executable reference models"),
    ]
    m = dict(version=1, setup_cmd="./check setup",
             hooks=dict(guard="OMPL_VERIF",
                        enable="checks build /repo's working tree out of tree (cmake/CMakeLists.txt) with -DOMPL_VERIF into /verif/build/{plain,asan,tsan}",
                        baseline_off_cmd="./check baseline-off", source_commits=HOOK_COMMITS, add_only=True),
             engines=engines, checks=checks, not_applicable=na,
             notes="Technique family: deterministic simulation with fault injection. See DESIGN.md. Known findings / repaired defects: known_findings.json.")
    with open(os.path.join(VERIF, "MANIFEST.json"), "w") as f:
        json.dump(m, f, indent=1)
        f.write("\n")

if __name__ == "__main__":
    main()
