#!/usr/bin/env python3
"""Regenerates MANIFEST.json from the table below (kept in one place so it stays valid)."""
import json, subprocess, os
VERIF = os.path.dirname(os.path.abspath(__file__))

HOOK_COMMITS = ["53cc68daa"]

NA = {
 "C05": "checkMotion is a deterministic, state-free function of (s1, s2, validity predicate): no RNG, clock, I/O, retry, history or thread in it; choosing the predicate's answers is input generation, not fault injection. Its user-visible failure (invalid solution paths) is caught by C01's dense re-validation, its shared counters under concurrency by C19.",
 "C06": "distance / getMaximumExtent / equalStates are closed-form pure functions of their state arguments: no schedule, fault, history or random stream to simulate.",
 "C07": "interpolate is a closed-form pure function of (from, to, t): nothing for a simulator to own.",
 "C14": "Dubins / Reeds-Shepp distance and interpolation are closed-form pure functions of two poses and a radius: nothing for a simulator to own.",
}

CHECKS = {
 "C10": dict(engine="dssim", cat="exploration", ref="DESIGN.md 4/C10",
   text="Seeded search over op histories (add/add(vector)/remove/clear/nearest/nearestK/nearestR/list) on the real GNAT, GNAT-no-thread-safety, linear and sqrt-approx structures with swarm-chosen tree parameters, exact-tie metrics and simulator-owned pivot draws (hook H1), refined op by op against a brute-force reference model, under ASan/UBSan. Sampling, not enumeration: a clean run is evidence.",
   note="Trusted: the harness's metric functions and brute-force model (~60 lines). Assumes a single caller thread (concurrency is C19).",
   technique="deterministic simulation: seeded history search vs executable reference model, RNG-draw fault injection (H1), ddmin shrinking + replay"),
 "C11": dict(engine="dssim", cat="exploration", ref="DESIGN.md 4/C11",
   text="Seeded search over insert/insert(vector)/remove(handle)/update/pop/rebuild/buildFrom/sort/clear histories on the real BinaryHeap with duplicate-rich keys, checked after every op against a multiset model (top is a minimum, size, handle identity) and by a final drain, under ASan/UBSan.",
   note="Trusted: the multiset model. Comparator is a strict weak order supplied by the harness.",
   technique="deterministic simulation: seeded history search vs executable reference model, ddmin shrinking + replay"),
 "C12": dict(engine="dssim", cat="exploration", ref="DESIGN.md 4/C12",
   text="Seeded search over construct/add/update/remove/clear/sample histories on the real PDF in two separated configurations: exact (dyadic weights; the selection rule is demanded exactly, r on every interval boundary +-1ulp, 0 and 1) and drift (weight ratios up to 1e16; rule demanded within the accumulated rounding bound, memory safety demanded absolutely by ASan).",
   note="Trusted: prefix-sum model; in the drift configuration the rounding bound is an over-approximation (may miss a wrong pick that lands within it).",
   technique="deterministic simulation: seeded history search vs executable reference model, ASan as memory oracle, ddmin shrinking + replay"),
 "C13": dict(engine="dssim", cat="exploration", ref="DESIGN.md 4/C13",
   text="Seeded search over createCell+add / remove+destroyCell / update / updateAll / lookup / neighbors / components / clear / top histories on the real Grid, GridN and GridB (dimension 1-6, bounds, interior-neighbour limits, far-apart and negative coordinates), compared after every op with a std::map model: lookups, symmetric L1 neighbourhoods, flood-fill components, neighbour counts, border flags, queue membership counts and tops incl. the fall-back when one class is empty.",
   note="Trusted: the map model. Histories follow the create-then-add / remove-then-destroy protocol the planners use; coordinates stay inside the configured bounds when bounds are set.",
   technique="deterministic simulation: seeded history search vs executable reference model, ddmin shrinking + replay"),
}

PENDING = {}

def main():
    props = [json.loads(l) for l in open(os.path.join(VERIF, "properties.jsonl"))]
    checks, na = [], []
    for p in props:
        pid = p["id"]
        if pid in CHECKS:
            c = CHECKS[pid]
            checks.append(dict(property_id=pid, quick_cmd="./check %s --tier quick" % pid,
                               thorough_cmd="./check %s --tier thorough" % pid,
                               evidence_file="/verif/evidence/%s.json" % pid,
                               replay_cmd_template="./check %s --replay {path}" % pid, engine=c["engine"],
                               level_claimed=dict(category=c["cat"], text=c["text"], design_ref=c["ref"]),
                               level_note=c["note"], technique=c["technique"]))
        elif pid in NA:
            na.append(dict(property_id=pid, reason="not applicable to deterministic simulation: " + NA[pid]))
        else:
            na.append(dict(property_id=pid, reason=PENDING.get(pid, "not claimed yet: the check for this property is designed (DESIGN.md 4) but not built/registered at this commit")))
    engines = [
        dict(name="dssim", path="engines/dssim.cpp", serves_properties=["C10", "C11", "C12", "C13"],
             kind_free_text="in-process seeded op histories on the real data structures vs executable reference models"),
    ]
    m = dict(version=1, setup_cmd="./check setup",
             hooks=dict(guard="OMPL_VERIF",
                        enable="checks build /repo's working tree out of tree (cmake/CMakeLists.txt) with -DOMPL_VERIF into /verif/build/{plain,asan,tsan}",
                        baseline_off_cmd="./check baseline-off", source_commits=HOOK_COMMITS, add_only=True),
             engines=engines, checks=checks, not_applicable=na,
             notes="Technique family: deterministic simulation with fault injection. See DESIGN.md. Known findings / repaired defects: known_findings.json.")
    with open(os.path.join(VERIF, "MANIFEST.json"), "w") as f:
        json.dump(m, f, indent=1)
        f.write("\n")

if __name__ == "__main__":
    main()
