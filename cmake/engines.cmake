add_library(simcore STATIC ${VERIF_DIR}/sim/runner.cpp)
target_include_directories(simcore PUBLIC ${VERIF_DIR})
target_compile_options(simcore PRIVATE ${COMMON_FLAGS} ${SAN_FLAGS})

function(add_sim_engine name)
  add_engine(${name} ${ARGN})
  target_link_libraries(${name} PRIVATE simcore)
endfunction()

add_sim_engine(dssim ${VERIF_DIR}/engines/dssim.cpp)
add_sim_engine(plansim ${VERIF_DIR}/engines/plansim.cpp ${VERIF_DIR}/engines/planners_geo.cpp)
