add_library(simcore STATIC ${VERIF_DIR}/sim/runner.cpp)
target_include_directories(simcore PUBLIC ${VERIF_DIR})
target_compile_options(simcore PRIVATE ${COMMON_FLAGS} ${SAN_FLAGS})

function(add_sim_engine name)
  add_engine(${name} ${ARGN})
  target_link_libraries(${name} PRIVATE simcore)
endfunction()

# scheduler + interposers: no sanitizer flags on purpose (see sched.cpp); the TSan variant has no interposers
add_library(simsched STATIC ${VERIF_DIR}/sim/sched.cpp)
target_include_directories(simsched PUBLIC ${VERIF_DIR})
target_compile_options(simsched PRIVATE -O2 -g1 -std=c++17)
if(VARIANT STREQUAL "tsan")
  target_compile_definitions(simsched PRIVATE SIM_NO_INTERPOSE)
endif()
function(add_sched_engine name)
  add_sim_engine(${name} ${ARGN})
  target_link_libraries(${name} PRIVATE simsched simhandoff dl pthread)
endfunction()

add_sim_engine(dssim ${VERIF_DIR}/engines/dssim.cpp)
add_sim_engine(plansim ${VERIF_DIR}/engines/plansim.cpp ${VERIF_DIR}/engines/planners_geo.cpp)
add_sched_engine(ptcsim ${VERIF_DIR}/engines/ptcsim.cpp)
