#include <ompl/base/SpaceInformation.h>
#include <ompl/base/spaces/RealVectorStateSpace.h>
#include <ompl/base/ProblemDefinition.h>
#include <ompl/base/objectives/PathLengthOptimizationObjective.h>
#include <ompl/geometric/PathGeometric.h>
#include <ompl/geometric/planners/rrt/RRT.h>
#include <ompl/geometric/planners/rrt/RRTConnect.h>
#include <ompl/geometric/planners/rrt/RRTstar.h>
#include <ompl/geometric/planners/rrt/InformedRRTstar.h>
#include <ompl/geometric/planners/rrt/RRTsharp.h>
#include <ompl/geometric/planners/rrt/RRTXstatic.h>
#include <ompl/geometric/planners/rrt/LazyRRT.h>
#include <ompl/geometric/planners/rrt/TRRT.h>
#include <ompl/geometric/planners/rrt/BiTRRT.h>
#include <ompl/geometric/planners/rrt/LBTRRT.h>
#include <ompl/geometric/planners/rrt/LazyLBTRRT.h>
#include <ompl/geometric/planners/informedtrees/BITstar.h>
#include <ompl/geometric/planners/informedtrees/ABITstar.h>
#include <ompl/geometric/planners/informedtrees/AITstar.h>
#include <ompl/geometric/planners/informedtrees/EITstar.h>
#include <ompl/geometric/planners/informedtrees/EIRMstar.h>
#include <ompl/geometric/planners/kpiece/KPIECE1.h>
#include <ompl/geometric/planners/kpiece/BKPIECE1.h>
#include <ompl/geometric/planners/kpiece/LBKPIECE1.h>
#include <ompl/geometric/planners/est/EST.h>
#include <ompl/geometric/planners/est/BiEST.h>
#include <ompl/geometric/planners/est/ProjEST.h>
#include <ompl/geometric/planners/sbl/SBL.h>
#include <ompl/geometric/planners/fmt/FMT.h>
#include <ompl/geometric/planners/fmt/BFMT.h>
#include <ompl/geometric/planners/prm/LazyPRM.h>
#include <ompl/geometric/planners/prm/LazyPRMstar.h>
#include <ompl/geometric/planners/stride/STRIDE.h>
#include <ompl/geometric/planners/pdst/PDST.h>
#include <ompl/geometric/planners/sst/SST.h>
#include <ompl/geometric/planners/rlrt/RLRT.h>
#include <ompl/geometric/planners/rlrt/BiRLRT.h>
#include <ompl/util/Console.h>
#include <cstdio>
#include <csignal>
#include <unistd.h>
#include <sys/wait.h>
namespace ob=ompl::base; namespace og=ompl::geometric;
static bool validFn(const ob::State* s){ auto* r=s->as<ob::RealVectorStateSpace::StateType>(); double x=r->values[0]-5,y=r->values[1]-5; return x*x+y*y>4.0; }
template<class P> int one(unsigned seed, long k, long* evals, std::string* msg){
  ompl::RNG::setSeed(seed);
  auto space=std::make_shared<ob::RealVectorStateSpace>(2); space->setBounds(0,10);
  auto si=std::make_shared<ob::SpaceInformation>(space);
  si->setStateValidityChecker(validFn); si->setStateValidityCheckingResolution(0.01); si->setup();
  auto pdef=std::make_shared<ob::ProblemDefinition>(si);
  ob::ScopedState<> s(space), g(space); s[0]=1;s[1]=1;g[0]=9;g[1]=9; pdef->setStartAndGoalStates(s,g,0.1);
  pdef->setOptimizationObjective(std::make_shared<ob::PathLengthOptimizationObjective>(si));
  auto pl=std::make_shared<P>(si); pl->setProblemDefinition(pdef); pl->setup();
  long n=0; bool fired=false; long after=0;
  ob::PlannerTerminationCondition ptc([&]{ if(fired){after++; return true;} if(n++>=k){fired=true; return true;} return false; });
  ob::PlannerStatus st=pl->solve(ptc);
  *evals=n; int bad=0; char buf[256];
  bool sol=(bool)st; size_t ns=pdef->getSolutionCount();
  if(sol && ns==0){ bad=1; *msg="status solution but pdef empty"; }
  if(!sol && ns>0){ bad=1; *msg="non-solution status but path added"; }
  if(ns>0){ auto* p=pdef->getSolutionPath()->as<og::PathGeometric>(); 
    if(p->getStateCount()==0){ bad=1; *msg="empty path"; }
    else { if(!si->equalStates(p->getState(0), s.get())){ bad=1; *msg="path does not start at start"; }
      double d=0; bool sat=pdef->getGoal()->isSatisfied(p->getStates().back(), &d); bool approx=pdef->hasApproximateSolution();
      if(!approx && !sat){ bad=1; snprintf(buf,256,"exact solution but last state not in goal (d=%g)",d); *msg=buf; }
      if((ob::PlannerStatus::StatusType)st==ob::PlannerStatus::EXACT_SOLUTION && approx){ bad=1; *msg="status exact but pdef approximate"; }
      if((ob::PlannerStatus::StatusType)st==ob::PlannerStatus::APPROXIMATE_SOLUTION && !approx){ bad=1; *msg="status approximate but pdef exact"; }
      if(approx && std::abs(pdef->getSolutionDifference()-d)>1e-9){ bad=1; snprintf(buf,256,"approx difference %g != actual %g",pdef->getSolutionDifference(),d); *msg=buf; }
      if(!p->check()){ bad=1; *msg="path->check() false"; }
    } }
  if(after>10000){bad=1;*msg="many evals after fire";}
  return bad;
}
template<class P> void sweep(const char* name, unsigned seed){
  // find K
  long evals=0; std::string m; int nbad=0, ncrash=0; std::string first; long firstk=-1;
  long K=400;
  for(long k=0;k<=K;k++){
    int pfd[2]; pipe(pfd); pid_t c=fork();
    if(c==0){ close(pfd[0]); alarm(20); std::string msg; long ev=0; int b=one<P>(seed,k,&ev,&msg); char out[512]; int n=snprintf(out,512,"%d %ld %s",b,ev,msg.c_str()); write(pfd[1],out,n); _exit(0);} 
    close(pfd[1]); char in[512]; int n=read(pfd[0],in,511); close(pfd[0]); int stt; waitpid(c,&stt,0);
    if(!WIFEXITED(stt) || n<=0){ ncrash++; if(firstk<0){firstk=k; first= WIFSIGNALED(stt)? std::string("CRASH signal ")+std::to_string(WTERMSIG(stt)) : "CRASH";} continue; }
    in[n]=0; int b; long ev; char msg[512]=""; sscanf(in,"%d %ld %[^\n]",&b,&ev,msg); if(b){ nbad++; if(firstk<0){firstk=k; first=msg;} } if(ev<k){ /* finished before k */ K=std::min(K,k+2);} }
  printf("%-14s swept k=0..%ld bad=%d crash=%d first@k=%ld: %s\n", name, K, nbad, ncrash, firstk, first.c_str()); fflush(stdout);
}
#define S(P) sweep<og::P>(#P, seed);
int main(int argc,char**argv){ unsigned seed=atoi(argv[1]); ompl::msg::noOutputHandler();
 S(RRT) S(RRTConnect) S(RRTstar) S(InformedRRTstar) S(RRTsharp) S(RRTXstatic) S(LazyRRT) S(TRRT) S(BiTRRT) S(LBTRRT) S(LazyLBTRRT) S(BITstar) S(ABITstar) S(AITstar) S(EITstar) S(EIRMstar) S(KPIECE1) S(BKPIECE1) S(LBKPIECE1) S(EST) S(BiEST) S(ProjEST) S(SBL) S(FMT) S(BFMT) S(LazyPRM) S(LazyPRMstar) S(STRIDE) S(PDST) S(SST) S(RLRT) S(BiRLRT)
}
