#include <ompl/base/SpaceInformation.h>
#include <ompl/base/spaces/RealVectorStateSpace.h>
#include <ompl/base/spaces/SE2StateSpace.h>
#include <ompl/base/spaces/SE3StateSpace.h>
#include <ompl/base/spaces/SO2StateSpace.h>
#include <ompl/base/spaces/SO3StateSpace.h>
#include <ompl/base/spaces/TimeStateSpace.h>
#include <ompl/base/spaces/DiscreteStateSpace.h>
#include <ompl/base/spaces/DubinsStateSpace.h>
#include <ompl/base/spaces/special/TorusStateSpace.h>
#include <ompl/base/spaces/special/SphereStateSpace.h>
#include <ompl/base/spaces/special/MobiusStateSpace.h>
#include <ompl/base/spaces/special/KleinBottleStateSpace.h>
#include <ompl/base/samplers/UniformValidStateSampler.h>
#include <ompl/base/samplers/GaussianValidStateSampler.h>
#include <ompl/base/samplers/ObstacleBasedValidStateSampler.h>
#include <ompl/base/samplers/BridgeTestValidStateSampler.h>
#include <ompl/base/samplers/MaximizeClearanceValidStateSampler.h>
#include <ompl/base/samplers/MinimumClearanceValidStateSampler.h>
#include <ompl/base/samplers/informed/PathLengthDirectInfSampler.h>
#include <ompl/base/samplers/informed/RejectionInfSampler.h>
#include <ompl/base/objectives/PathLengthOptimizationObjective.h>
#include <ompl/base/ProblemDefinition.h>
#include <ompl/util/Console.h>
#include <ompl/util/GeometricEquations.h>
#include <cstdio>
namespace ob=ompl::base;
static void chkSpace(const char* nm, ob::StateSpacePtr sp, int N){ sp->setup(); auto s=sp->allocStateSampler(); auto* a=sp->allocState(); auto* c=sp->allocState(); int bad=0; s->sampleUniform(c); double ext=sp->getMaximumExtent(); if(!std::isfinite(ext)) ext=10;
  for(int i=0;i<N;i++){ double d= (i%7==0)?0.0 : ext*std::pow(10.0,(i%9)-4); int mode=i%3; if(mode==0) s->sampleUniform(a); else if(mode==1) s->sampleUniformNear(a,c,d); else s->sampleGaussian(a,c,d);
    if(!sp->satisfiesBounds(a)){ if(bad<3){ printf("  %s mode=%d d=%g OUT OF BOUNDS: ",nm,mode,d); sp->printState(a,std::cout);} bad++; }
    else { auto* b=sp->cloneState(a); sp->enforceBounds(b); if(!sp->equalStates(a,b) ){ if(bad<3) printf("  %s enforceBounds changed an in-bounds state\n",nm); bad++; } sp->freeState(b); }
    if(i%5==0) sp->copyState(c,a); }
  printf("%-18s sampler calls=%d bad=%d\n",nm,N,bad); sp->freeState(a); sp->freeState(c); }
int main(){ ompl::msg::setLogLevel(ompl::msg::LOG_ERROR); ompl::RNG::setSeed(5);
  { auto r=std::make_shared<ob::RealVectorStateSpace>(3); r->setBounds(-2,5); chkSpace("R3",r,300000); }
  { auto r=std::make_shared<ob::RealVectorStateSpace>(2); ob::RealVectorBounds b(2); b.setLow(0,1); b.setHigh(0,1); b.setLow(1,-1e100); b.setHigh(1,1e100); r->setBounds(b); chkSpace("R2 degenerate/huge",r,300000); }
  chkSpace("SO2",std::make_shared<ob::SO2StateSpace>(),300000); chkSpace("SO3",std::make_shared<ob::SO3StateSpace>(),300000);
  { auto s=std::make_shared<ob::SE2StateSpace>(); ob::RealVectorBounds b(2); b.setLow(-1); b.setHigh(1); s->setBounds(b); chkSpace("SE2",s,300000); }
  { auto s=std::make_shared<ob::SE3StateSpace>(); ob::RealVectorBounds b(3); b.setLow(-1); b.setHigh(1); s->setBounds(b); chkSpace("SE3",s,300000); }
  { auto s=std::make_shared<ob::TimeStateSpace>(); s->setBounds(0,10); chkSpace("Time bounded",s,100000); }
  chkSpace("Discrete",std::make_shared<ob::DiscreteStateSpace>(-3,4),100000);
  { auto s=std::make_shared<ob::DubinsStateSpace>(1.0); ob::RealVectorBounds b(2); b.setLow(-5); b.setHigh(5); s->setBounds(b); chkSpace("Dubins",s,100000); }
  chkSpace("Torus",std::make_shared<ob::TorusStateSpace>(),100000); chkSpace("Sphere",std::make_shared<ob::SphereStateSpace>(),100000); chkSpace("Mobius",std::make_shared<ob::MobiusStateSpace>(),100000); chkSpace("Klein",std::make_shared<ob::KleinBottleStateSpace>(),100000);
  { auto cs=std::make_shared<ob::CompoundStateSpace>(); auto r=std::make_shared<ob::RealVectorStateSpace>(2); r->setBounds(0,1); cs->addSubspace(r,1.0); cs->addSubspace(std::make_shared<ob::SO2StateSpace>(),0.5); auto inner=std::make_shared<ob::CompoundStateSpace>(); inner->addSubspace(std::make_shared<ob::SO3StateSpace>(),2.0); auto t=std::make_shared<ob::TimeStateSpace>(); t->setBounds(-1,1); inner->addSubspace(t,0.1); cs->addSubspace(inner,0.7); chkSpace("nested compound",cs,200000); }
  // valid samplers
  { auto r=std::make_shared<ob::RealVectorStateSpace>(2); r->setBounds(0,10); auto si=std::make_shared<ob::SpaceInformation>(r); auto vf=[](const ob::State* s){ auto* v=s->as<ob::RealVectorStateSpace::StateType>()->values; double x=v[0]-5,y=v[1]-5; return x*x+y*y>9.0 && !(v[0]>1&&v[0]<1.02); }; si->setStateValidityChecker(vf); si->setup();
    struct Clr: ob::StateValidityChecker { using ob::StateValidityChecker::StateValidityChecker; bool isValid(const ob::State* s) const override { auto* v=s->as<ob::RealVectorStateSpace::StateType>()->values; double x=v[0]-5,y=v[1]-5; return x*x+y*y>9.0; } double clearance(const ob::State* s) const override { auto* v=s->as<ob::RealVectorStateSpace::StateType>()->values; double x=v[0]-5,y=v[1]-5; return std::sqrt(x*x+y*y)-3.0; } };
    std::vector<std::pair<const char*,ob::ValidStateSamplerPtr>> vs={{"uniform",std::make_shared<ob::UniformValidStateSampler>(si.get())},{"gaussian",std::make_shared<ob::GaussianValidStateSampler>(si.get())},{"obstacle",std::make_shared<ob::ObstacleBasedValidStateSampler>(si.get())},{"bridge",std::make_shared<ob::BridgeTestValidStateSampler>(si.get())},{"maxclear",std::make_shared<ob::MaximizeClearanceValidStateSampler>(si.get())},{"minclear",std::make_shared<ob::MinimumClearanceValidStateSampler>(si.get())}};
    auto* a=si->allocState(); auto* c=si->allocState(); auto ss=si->allocStateSampler();
    for(auto& kv: vs){ int bad=0,succ=0; for(int i=0;i<60000;i++){ ss->sampleUniform(c); bool ok = (i%2)? kv.second->sample(a) : kv.second->sampleNear(a,c,(i%11)*0.7); if(ok){ succ++; if(!si->satisfiesBounds(a)||!vf(a)){ if(bad<2){ printf("  valid sampler %s returned true with invalid/out-of-bounds state: ",kv.first); si->printState(a,std::cout);} bad++; } } } printf("valid sampler %-9s success=%d bad=%d\n",kv.first,succ,bad); } }
  // informed
  for(int dim=2; dim<=6; dim+=2){ auto r=std::make_shared<ob::RealVectorStateSpace>(dim); r->setBounds(-3,3); auto si=std::make_shared<ob::SpaceInformation>(r); si->setStateValidityChecker([](const ob::State*){return true;}); si->setup(); auto pd=std::make_shared<ob::ProblemDefinition>(si); ob::ScopedState<> s(r),g(r); for(int i=0;i<dim;i++){s[i]=-1; g[i]=(i==0)?2:-1;} pd->setStartAndGoalStates(s,g,0.0); auto opt=std::make_shared<ob::PathLengthOptimizationObjective>(si); pd->setOptimizationObjective(opt);
    ob::PathLengthDirectInfSampler dir(pd,100); ob::RejectionInfSampler rej(pd,100); auto* a=si->allocState(); int bad=0,succ=0,fail=0; double worstRel=0; for(int i=0;i<200000;i++){ double c=3.0*(1+std::pow(10.0,(i%8)-5)); bool ok= (i%2)? dir.sampleUniform(a,ob::Cost(c)) : rej.sampleUniform(a,ob::Cost(c)); if(!ok){fail++; continue;} succ++; double h=dir.heuristicSolnCost(a).value(); worstRel=std::max(worstRel,(h-c)/c); if(!si->satisfiesBounds(a) || !(h<c)){ if(bad<3) printf("  informed dim=%d %s c=%.17g h=%.17g inbounds=%d\n",dim,(i%2)?"direct":"reject",c,h,(int)si->satisfiesBounds(a)); bad++; } }
    double c=4.0; double meas=dir.getInformedMeasure(ob::Cost(c)); double an=ompl::unitNBallMeasure(dim)*(c/2); for(int i=1;i<dim;i++) an*=std::sqrt(c*c-9.0)/2; an=std::min(an,r->getMeasure());
    printf("informed dim=%d success=%d fail=%d bad=%d worst (h-c)/c=%g  measure %.12g vs analytic %.12g\n",dim,succ,fail,bad,worstRel,meas,an); }
}
