#include <ompl/base/PlannerTerminationCondition.h>
#include <ompl/base/SpaceInformation.h>
#include <ompl/base/spaces/RealVectorStateSpace.h>
#include <ompl/base/ProblemDefinition.h>
#include <ompl/base/goals/GoalLazySamples.h>
#include <ompl/geometric/planners/rrt/RRT.h>
#include <ompl/geometric/planners/rrt/RRTConnect.h>
#include <ompl/util/Console.h>
#include <ompl/util/Time.h>
#include <thread>
#include <cstdio>
#include <cstdint>
namespace ob=ompl::base; namespace og=ompl::geometric;
extern "C" void sim_yield(); extern "C" void sim_start(uint64_t); extern "C" void sim_stop();
static double nowS(){ return std::chrono::duration<double>(ompl::time::now().time_since_epoch()).count(); }
int main(int argc,char**argv){ unsigned seed=atoi(argv[1]); ompl::msg::noOutputHandler();
  { // periodic PTC lag
    sim_start(seed); double t0=nowS(); double T=t0+0.5003; long calls=0; double period=0.05;
    { ob::PlannerTerminationCondition ptc([&]{ calls++; return nowS()>T; }, period); double first=-1; long evals=0; while(first<0){ evals++; if(ptc()) first=nowS(); sim_yield(); if(nowS()>t0+5) break; }
      printf("periodic: predicate true at +%.4f, eval first true at +%.4f (lag %.4f, period %.3f), fn calls=%ld evals=%ld\n", T-t0, first-t0, first-T, period, calls, evals); }
    sim_stop(); }
  { // solve(double) on an infeasible world: returns at ~duration
    sim_start(seed+1); auto space=std::make_shared<ob::RealVectorStateSpace>(2); space->setBounds(0,10); auto si=std::make_shared<ob::SpaceInformation>(space); si->setStateValidityChecker([](const ob::State* s){ sim_yield(); return s->as<ob::RealVectorStateSpace::StateType>()->values[0]<5.0 || s->as<ob::RealVectorStateSpace::StateType>()->values[0]>5.5 ? true:false; }); si->setup();
    auto pd=std::make_shared<ob::ProblemDefinition>(si); ob::ScopedState<> s(space),g(space); s[0]=1;s[1]=1;g[0]=9;g[1]=9; pd->setStartAndGoalStates(s,g,0.1); og::RRT rrt(si); rrt.setProblemDefinition(pd); rrt.setup(); double t0=nowS(); auto st=rrt.ob::Planner::solve(2.0); printf("solve(2.0) on infeasible world: status=%s returned after %.4f simulated s\n", st.asString().c_str(), nowS()-t0); sim_stop(); }
  { // terminate() from another thread + GoalLazySamples slow producer
    sim_start(seed+2); auto space=std::make_shared<ob::RealVectorStateSpace>(2); space->setBounds(0,10); auto si=std::make_shared<ob::SpaceInformation>(space); long nvalid=0; si->setStateValidityChecker([&](const ob::State* s){ nvalid++; sim_yield(); auto* v=s->as<ob::RealVectorStateSpace::StateType>()->values; double x=v[0]-5,y=v[1]-5; return x*x+y*y>4; }); si->setup();
    auto pd=std::make_shared<ob::ProblemDefinition>(si); ob::ScopedState<> s(space); s[0]=1;s[1]=1; pd->addStartState(s);
    int produced=0; auto goal=std::make_shared<ob::GoalLazySamples>(si,[&](const ob::GoalLazySamples*, ob::State* st){ std::this_thread::sleep_for(std::chrono::milliseconds(30)); auto* v=st->as<ob::RealVectorStateSpace::StateType>()->values; v[0]=9; v[1]=9-0.01*produced; produced++; return produced<5; }, true); goal->setThreshold(0.1); pd->setGoal(goal);
    og::RRTConnect pl(si); pl.setProblemDefinition(pd); pl.setup(); auto ptc=ob::plannerNonTerminatingCondition(); double t0=nowS(); double tTerm=-1; long nvAtTerm=0;
    std::thread killer([&]{ std::this_thread::sleep_for(std::chrono::milliseconds(400)); tTerm=nowS(); nvAtTerm=nvalid; ptc.terminate(); });
    auto st=pl.solve(ptc); double t1=nowS(); killer.join(); goal->stopSampling();
    printf("RRTConnect+GoalLazySamples(30ms/goal): status=%s at +%.4f s, goals produced=%d, terminate() at +%.4f (validity calls after terminate: %ld)\n", st.asString().c_str(), t1-t0, produced, tTerm<0?-1.0:tTerm-t0, tTerm<0?0:nvalid-nvAtTerm); sim_stop(); }
}
