#include <ompl/base/SpaceInformation.h>
#include <ompl/base/spaces/RealVectorStateSpace.h>
#include <ompl/base/spaces/SE2StateSpace.h>
#include <ompl/base/ProblemDefinition.h>
#include <ompl/base/objectives/PathLengthOptimizationObjective.h>
#include <ompl/geometric/PathGeometric.h>
#include <ompl/geometric/planners/rrt/RRT.h>
#include <ompl/geometric/planners/rrt/RRTConnect.h>
#include <ompl/geometric/planners/rrt/RRTstar.h>
#include <ompl/geometric/planners/rrt/InformedRRTstar.h>
#include <ompl/geometric/planners/rrt/SORRTstar.h>
#include <ompl/geometric/planners/rrt/RRTsharp.h>
#include <ompl/geometric/planners/rrt/RRTXstatic.h>
#include <ompl/geometric/planners/rrt/LazyRRT.h>
#include <ompl/geometric/planners/rrt/TRRT.h>
#include <ompl/geometric/planners/rrt/BiTRRT.h>
#include <ompl/geometric/planners/rrt/LBTRRT.h>
#include <ompl/geometric/planners/rrt/LazyLBTRRT.h>
#include <ompl/geometric/planners/informedtrees/BITstar.h>
#include <ompl/geometric/planners/informedtrees/ABITstar.h>
#include <ompl/geometric/planners/informedtrees/AITstar.h>
#include <ompl/geometric/planners/informedtrees/EITstar.h>
#include <ompl/geometric/planners/informedtrees/EIRMstar.h>
#include <ompl/geometric/planners/kpiece/KPIECE1.h>
#include <ompl/geometric/planners/kpiece/BKPIECE1.h>
#include <ompl/geometric/planners/kpiece/LBKPIECE1.h>
#include <ompl/geometric/planners/est/EST.h>
#include <ompl/geometric/planners/est/BiEST.h>
#include <ompl/geometric/planners/est/ProjEST.h>
#include <ompl/geometric/planners/sbl/SBL.h>
#include <ompl/geometric/planners/fmt/FMT.h>
#include <ompl/geometric/planners/fmt/BFMT.h>
#include <ompl/geometric/planners/prm/LazyPRM.h>
#include <ompl/geometric/planners/prm/LazyPRMstar.h>
#include <ompl/geometric/planners/stride/STRIDE.h>
#include <ompl/geometric/planners/pdst/PDST.h>
#include <ompl/geometric/planners/sst/SST.h>
#include <ompl/geometric/planners/rlrt/RLRT.h>
#include <ompl/geometric/planners/rlrt/BiRLRT.h>
#include <ompl/util/Console.h>
#include <cstdio>
#include <cstring>
#include <cstdint>
#include <string>
namespace ob=ompl::base; namespace og=ompl::geometric;
static uint64_t h64(uint64_t h, const void* p, size_t n){ const unsigned char* c=(const unsigned char*)p; for(size_t i=0;i<n;i++){ h^=c[i]; h*=1099511628211ULL;} return h; }
template<class P> void run(unsigned seed, unsigned iters){
  ompl::RNG::setSeed(seed);
  auto space=std::make_shared<ob::SE2StateSpace>(); ob::RealVectorBounds b(2); b.setLow(0); b.setHigh(10); space->setBounds(b);
  auto si=std::make_shared<ob::SpaceInformation>(space); long cnt=0;
  si->setStateValidityChecker([&cnt](const ob::State* s){ cnt++; auto* r=s->as<ob::SE2StateSpace::StateType>(); double x=r->getX()-5,y=r->getY()-5; return x*x+y*y>4.0 && !(r->getX()>2&&r->getX()<2.05&&r->getY()<7); });
  si->setStateValidityCheckingResolution(0.01); si->setup();
  auto pdef=std::make_shared<ob::ProblemDefinition>(si); ob::ScopedState<> s(space), g(space); s[0]=1;s[1]=1;s[2]=0;g[0]=9;g[1]=9;g[2]=1; pdef->setStartAndGoalStates(s,g,0.1);
  pdef->setOptimizationObjective(std::make_shared<ob::PathLengthOptimizationObjective>(si));
  auto pl=std::make_shared<P>(si); pl->setProblemDefinition(pdef); pl->setup();
  long n=0; ob::PlannerTerminationCondition ptc([&]{return n++>=iters;}); ob::PlannerStatus st=pl->solve(ptc);
  uint64_t h=1469598103934665603ULL; int sti=(int)(ob::PlannerStatus::StatusType)st; h=h64(h,&sti,sizeof sti);
  for(auto& sol: pdef->getSolutions()){ auto* p=sol.path_->as<og::PathGeometric>(); for(auto* x: p->getStates()){ std::vector<double> r; space->copyToReals(r,x); h=h64(h,r.data(),r.size()*8);} }
  printf("%016lx nv=%ld\n",h,cnt);
}
#define T(P) if(w==#P) run<og::P>(seed,iters);
int main(int argc,char**argv){ std::string w=argv[1]; unsigned seed=atoi(argv[2]); unsigned iters=atoi(argv[3]); int pad=atoi(argv[4]); ompl::msg::noOutputHandler();
 std::vector<void*> keep; uint64_t x=pad*2654435761u+1; for(int i=0;i<pad*37;i++){ x^=x<<13;x^=x>>7;x^=x<<17; keep.push_back(malloc(16+x%5000)); if(i%3==0){ free(keep.back()); keep.pop_back(); } }
 T(RRT) T(RRTConnect) T(RRTstar) T(InformedRRTstar) T(SORRTstar) T(RRTsharp) T(RRTXstatic) T(LazyRRT) T(TRRT) T(BiTRRT) T(LBTRRT) T(LazyLBTRRT) T(BITstar) T(ABITstar) T(AITstar) T(EITstar) T(EIRMstar) T(KPIECE1) T(BKPIECE1) T(LBKPIECE1) T(EST) T(BiEST) T(ProjEST) T(SBL) T(FMT) T(BFMT) T(LazyPRM) T(LazyPRMstar) T(STRIDE) T(PDST) T(SST) T(RLRT) T(BiRLRT)
}
