// throwaway feasibility probe: serialising scheduler over interposed pthread/nanosleep/clock_gettime
#define _GNU_SOURCE
#include <dlfcn.h>
#include <pthread.h>
#include <time.h>
#include <linux/futex.h>
#include <sys/syscall.h>
#include <unistd.h>
#include <cstdio>
#include <cstdlib>
#include <cstdint>
#include <cstring>
#include <vector>
#include <cerrno>
namespace sim {
struct Th { int id; int go; bool done; bool blockedMutex; pthread_mutex_t* m; bool sleeping; long long wake; int joinTarget; pthread_t pt; void*(*fn)(void*); void* arg; void* ret; };
static Th* ths[64]; static int nth=0; static bool active=false; static int current=-1;
static long long now_ns = 1700000000LL*1000000000LL; static uint64_t rng=88172645463325252ULL; static long long cost_ns=20000;
static uint64_t schedHash=1469598103934665603ULL; static long switches=0, yields=0;
static __thread Th* self=nullptr;
static long fut(int*a,int op,int v){ return syscall(SYS_futex,a,op,v,0,0,0);} 
static uint64_t nextr(){ rng^=rng<<13; rng^=rng>>7; rng^=rng<<17; return rng; }
static void park(Th* t){ for(;;){ int g=__atomic_load_n(&t->go,__ATOMIC_SEQ_CST); if(g){ __atomic_store_n(&t->go,0,__ATOMIC_SEQ_CST); return;} fut(&t->go,FUTEX_WAIT,0);} }
static void release(Th* t){ __atomic_store_n(&t->go,1,__ATOMIC_SEQ_CST); fut(&t->go,FUTEX_WAKE,1); }
static bool runnable(Th* t){ if(t->done) return false; if(t->sleeping){ if(now_ns>=t->wake){t->sleeping=false;} else return false;} if(t->joinTarget>=0){ if(ths[t->joinTarget]->done) t->joinTarget=-1; else return false;} return true; }
// pick next and hand over; called by current thread
static void reschedule(bool selfParks){
  for(;;){ int cand[64],nc=0; for(int i=0;i<nth;i++) if(runnable(ths[i])) cand[nc++]=i;
    if(nc==0){ long long mw=-1; for(int i=0;i<nth;i++) if(!ths[i]->done&&ths[i]->sleeping&&(mw<0||ths[i]->wake<mw)) mw=ths[i]->wake; if(mw<0){ fprintf(stderr,"DEADLOCK\n"); _exit(3);} now_ns=mw; continue; }
    int pick=cand[nextr()%nc]; schedHash=(schedHash^ (uint64_t)pick)*1099511628211ULL; 
    if(pick==current) return; switches++; int prev=current; current=pick; release(ths[pick]); if(selfParks) park(ths[prev]); return; }
}
static void yield(){ if(!active||!self) return; yields++; now_ns+=cost_ns; reschedule(true); }
}
using namespace sim;
extern "C" void sim_yield(){ sim::yield(); }
extern "C" void sim_start(uint64_t seed){ rng=seed*2654435761ULL+1; static Th mainT; memset(&mainT,0,sizeof mainT); mainT.id=0; mainT.joinTarget=-1; ths[0]=&mainT; nth=1; self=&mainT; current=0; active=true; }
extern "C" void sim_stop(){ active=false; fprintf(stderr,"sim: threads=%d yields=%ld switches=%ld schedHash=%016lx simtime=%.3fs\n", nth, yields, switches, schedHash, (now_ns-1700000000LL*1000000000LL)/1e9); }
typedef int (*mfn)(pthread_mutex_t*);
static mfn real_lock, real_unlock, real_trylock; static int (*real_create)(pthread_t*,const pthread_attr_t*,void*(*)(void*),void*); static int (*real_join)(pthread_t,void**);
static void init_real(){ if(real_lock) return; real_trylock=(mfn)dlsym(RTLD_NEXT,"pthread_mutex_trylock"); real_unlock=(mfn)dlsym(RTLD_NEXT,"pthread_mutex_unlock"); real_create=(decltype(real_create))dlsym(RTLD_NEXT,"pthread_create"); real_join=(decltype(real_join))dlsym(RTLD_NEXT,"pthread_join"); real_lock=(mfn)dlsym(RTLD_NEXT,"pthread_mutex_lock"); }
extern "C" int pthread_mutex_lock(pthread_mutex_t* m){ if(!real_lock) init_real(); if(!active||!self) return real_lock(m); sim::yield(); for(;;){ int r=real_trylock(m); if(r!=EBUSY) return r; sim::yield(); } }
extern "C" int pthread_mutex_unlock(pthread_mutex_t* m){ if(!real_lock) init_real(); int r=real_unlock(m); if(active&&self) sim::yield(); return r; }
static void* tramp(void* p){ Th* t=(Th*)p; self=t; park(t); void* r=t->fn(t->arg); t->ret=r; t->done=true; // hand over without parking
  reschedule(false); return r; }
extern "C" int pthread_create(pthread_t* pt,const pthread_attr_t* a,void*(*fn)(void*),void* arg){ init_real(); if(!active||!self) return real_create(pt,a,fn,arg); Th* t=new Th(); memset(t,0,sizeof *t); t->id=nth; t->joinTarget=-1; t->fn=fn; t->arg=arg; ths[nth++]=t; int r=real_create(pt,a,tramp,t); t->pt=*pt; sim::yield(); return r; }
extern "C" int pthread_join(pthread_t pt, void** ret){ init_real(); if(active&&self){ for(int i=0;i<nth;i++) if(ths[i]->fn && pthread_equal(ths[i]->pt,pt)){ if(!ths[i]->done){ self->joinTarget=i; now_ns+=cost_ns; reschedule(true);} break; } } return real_join(pt,ret); }
extern "C" int nanosleep(const struct timespec* req, struct timespec* rem){ if(!active||!self){ return syscall(SYS_nanosleep,req,rem);} self->sleeping=true; self->wake=now_ns+req->tv_sec*1000000000LL+req->tv_nsec; reschedule(true); return 0; }
extern "C" int clock_gettime(clockid_t id, struct timespec* ts){ if(!active||!self) return syscall(SYS_clock_gettime,id,ts); ts->tv_sec=now_ns/1000000000LL; ts->tv_nsec=now_ns%1000000000LL; return 0; }
