#include <ompl/base/SpaceInformation.h>
#include <ompl/base/spaces/RealVectorStateSpace.h>
#include <ompl/base/ProblemDefinition.h>
#include <ompl/geometric/PathGeometric.h>
#include <ompl/geometric/planners/prm/PRM.h>
#include <ompl/geometric/planners/rrt/pRRT.h>
#include <ompl/geometric/planners/cforest/CForest.h>
#include <ompl/geometric/planners/prm/SPARStwo.h>
#include <ompl/base/objectives/PathLengthOptimizationObjective.h>
#include <ompl/util/Console.h>
#include <cstdio>
#include <cstdint>
namespace ob=ompl::base; namespace og=ompl::geometric;
extern "C" void sim_yield(); extern "C" void sim_start(uint64_t); extern "C" void sim_stop();
static uint64_t h64(uint64_t h, const void* p, size_t n){ const unsigned char* c=(const unsigned char*)p; for(size_t i=0;i<n;i++){ h^=c[i]; h*=1099511628211ULL;} return h; }
template<class P> void run(const char* name, unsigned seed, double simSeconds){
  ompl::RNG::setSeed(seed);
  auto space=std::make_shared<ob::RealVectorStateSpace>(2); space->setBounds(0,10);
  auto si=std::make_shared<ob::SpaceInformation>(space);
  si->setStateValidityChecker([](const ob::State* s){ sim_yield(); auto* r=s->as<ob::RealVectorStateSpace::StateType>(); double x=r->values[0]-5,y=r->values[1]-5; return x*x+y*y>4.0; });
  si->setStateValidityCheckingResolution(0.01); si->setup();
  auto pdef=std::make_shared<ob::ProblemDefinition>(si);
  ob::ScopedState<> s(space), g(space); s[0]=1;s[1]=1;g[0]=9;g[1]=9; pdef->setStartAndGoalStates(s,g,0.1);
  pdef->setOptimizationObjective(std::make_shared<ob::PathLengthOptimizationObjective>(si));
  auto pl=std::make_shared<P>(si); pl->setProblemDefinition(pdef); pl->setup();
  sim_start(seed);
  ob::PlannerStatus st=pl->solve(ob::timedPlannerTerminationCondition(simSeconds));
  sim_stop();
  uint64_t h=1469598103934665603ULL; 
  if(pdef->hasSolution()){ auto* p=pdef->getSolutionPath()->as<og::PathGeometric>(); for(auto* x: p->getStates()){ h=h64(h,x->as<ob::RealVectorStateSpace::StateType>()->values,16);} }
  printf("%s status=%s pathhash=%016lx\n", name, st.asString().c_str(), h);
}
int main(int argc,char**argv){ unsigned seed=atoi(argv[1]); ompl::msg::noOutputHandler();
  std::string w=argv[2];
  if(w=="PRM") run<og::PRM>("PRM",seed,2.0);
  if(w=="pRRT") run<og::pRRT>("pRRT",seed,2.0);
  if(w=="CForest") run<og::CForest>("CForest",seed,0.5);
  if(w=="SPARStwo") run<og::SPARStwo>("SPARStwo",seed,0.5);
}
