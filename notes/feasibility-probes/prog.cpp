#include <thread>
#include <cstdio>
extern "C" void wait_turn(int); extern "C" void give_turn(int);
struct Counter { mutable unsigned v=0; void bump() const { v++; } };
Counter c;
int main(){
  std::thread a([]{ for(int i=0;i<3;i++){ wait_turn(1); c.bump(); give_turn(2);} });
  std::thread b([]{ for(int i=0;i<3;i++){ wait_turn(2); c.bump(); give_turn(i==2?0:1);} });
  give_turn(1);
  wait_turn(0);
  a.join(); b.join();
  printf("v=%u\n", c.v);
}
