#include <ompl/base/SpaceInformation.h>
#include <ompl/base/spaces/RealVectorStateSpace.h>
#include <ompl/base/spaces/SE3StateSpace.h>
#include <ompl/base/PlannerData.h>
#include <ompl/base/PlannerDataStorage.h>
#include <ompl/base/StateStorage.h>
#include <ompl/util/Console.h>
#include <sstream>
#include <cstdio>
#include <map>
namespace ob=ompl::base;
struct Cap: ompl::msg::OutputHandler { int errs=0,warns=0; void log(const std::string&, ompl::msg::LogLevel l, const char*, int) override { if(l>=ompl::msg::LOG_ERROR) errs++; else if(l>=ompl::msg::LOG_WARN) warns++; } };
int main(){ Cap cap; ompl::msg::useOutputHandler(&cap);
  auto space=std::make_shared<ob::SE3StateSpace>(); ob::RealVectorBounds b(3); b.setLow(-1); b.setHigh(1); space->setBounds(b);
  auto si=std::make_shared<ob::SpaceInformation>(space); si->setStateValidityChecker([](const ob::State*){return true;}); si->setup();
  ob::PlannerData pd(si); auto ss=si->allocStateSampler(); std::vector<ob::State*> sts;
  for(int i=0;i<5;i++){ auto* s=si->allocState(); ss->sampleUniform(s); sts.push_back(s); if(i==0) pd.addStartVertex(ob::PlannerDataVertex(s,i)); else if(i==4) pd.addGoalVertex(ob::PlannerDataVertex(s,i)); else pd.addVertex(ob::PlannerDataVertex(s,i)); }
  for(int i=0;i<4;i++) pd.addEdge(i,i+1,ob::PlannerDataEdge(),ob::Cost(i+0.5));
  std::ostringstream os; ob::PlannerDataStorage st; st.store(pd, os); std::string full=os.str(); printf("archive bytes=%zu\n", full.size());
  std::map<std::string,int> outcomes;
  for(size_t cut=0; cut<=full.size(); cut++){ std::istringstream is(full.substr(0,cut)); ob::PlannerData pd2(si); cap.errs=0; std::string o;
    try{ bool r=st.load(is,pd2); o = std::string(r?"true":"false")+ (cap.errs?"+err":"+silent") + (r? (pd2.numVertices()==5&&pd2.numEdges()==4?" full":" PARTIAL"):""); } catch(std::exception&e){ o=std::string("EXC ")+typeid(e).name(); }
    if(!outcomes.count(o)) printf("  first cut=%zu -> %s (v=%u e=%u)\n",cut,o.c_str(),pd2.numVertices(),pd2.numEdges()); outcomes[o]++; }
  for(auto&kv:outcomes) printf("PD outcome %-30s x%d\n",kv.first.c_str(),kv.second);
  // StateStorage
  ob::StateStorage sto(space); for(auto*s:sts) sto.addState(s); std::ostringstream os2; sto.store(os2); std::string f2=os2.str(); printf("state archive bytes=%zu\n", f2.size()); outcomes.clear();
  for(size_t cut=0; cut<=f2.size(); cut++){ std::istringstream is(f2.substr(0,cut)); ob::StateStorage s2(space); cap.errs=0; cap.warns=0; std::string o;
    try{ s2.load(is); o = std::string("size=")+std::to_string(s2.size())+ (cap.errs?"+err":(cap.warns?"+warn":"+silent")); } catch(std::exception&e){ o=std::string("EXC ")+typeid(e).name(); }
    if(!outcomes.count(o)) printf("  first cut=%zu -> %s\n",cut,o.c_str()); outcomes[o]++; }
  for(auto&kv:outcomes) printf("SS outcome %-30s x%d\n",kv.first.c_str(),kv.second);
}
