// probe: PathSimplifier clause oracles on real tree
#include <ompl/base/SpaceInformation.h>
#include <ompl/base/spaces/RealVectorStateSpace.h>
#include <ompl/base/ProblemDefinition.h>
#include <ompl/base/goals/GoalState.h>
#include <ompl/base/objectives/PathLengthOptimizationObjective.h>
#include <ompl/geometric/PathGeometric.h>
#include <ompl/geometric/PathSimplifier.h>
#include <ompl/geometric/PathHybridization.h>
#include <ompl/geometric/planners/rrt/RRT.h>
#include <ompl/geometric/planners/rrt/RRTConnect.h>
#include <ompl/util/Console.h>
#include <cstdio>
#include <unistd.h>
#include <sys/wait.h>
namespace ob=ompl::base; namespace og=ompl::geometric;
struct Slab{ double x0,x1,y0,y1; }; static std::vector<Slab> slabs;
static bool validXY(double x,double y){ for(auto&s:slabs) if(x>=s.x0&&x<=s.x1&&y>=s.y0&&y<=s.y1) return false; return true; }
static bool validFn(const ob::State* s){ auto* r=s->as<ob::RealVectorStateSpace::StateType>(); return validXY(r->values[0],r->values[1]); }
static void mkworld(unsigned seed){ ompl::RNG r(seed); slabs.clear(); int n=r.uniformInt(3,8); for(int i=0;i<n;i++){ double cx=r.uniformReal(2,8), cy=r.uniformReal(0,10); double w=r.uniformReal(0.004,0.3), h=r.uniformReal(1,4); if(r.uniformBool()) slabs.push_back({cx-w,cx+w,cy-h,cy+h}); else slabs.push_back({cy-h,cy+h,cx-w,cx+w}); }
  std::vector<Slab> k; for(auto&s:slabs){ auto in=[&](double x,double y){return x>=s.x0-0.2&&x<=s.x1+0.2&&y>=s.y0-0.2&&y<=s.y1+0.2;}; if(!in(1,1)&&!in(9,9)) k.push_back(s);} slabs=k; }
static double denseWorst(const ob::SpaceInformationPtr& si, og::PathGeometric& p){ auto space=si->getStateSpace(); double L=space->getLongestValidSegmentLength(); ob::State* t=si->allocState(); double worst=0; auto& v=p.getStates(); for(size_t i=0;i+1<v.size();i++){ double d=si->distance(v[i],v[i+1]); int nseg=std::max(1,(int)std::ceil(d/L)); int N=8*nseg,run=0,mx=0; for(int j=0;j<=N;j++){ space->interpolate(v[i],v[i+1],(double)j/N,t); if(!validFn(t)){run++;mx=std::max(mx,run);} else run=0;} worst=std::max(worst,(double)mx/N*nseg);} si->freeState(t); return worst; }
int one(unsigned seed, int routine){ ompl::RNG::setSeed(seed); mkworld(seed*7+1);
  auto space=std::make_shared<ob::RealVectorStateSpace>(2); space->setBounds(0,10); auto si=std::make_shared<ob::SpaceInformation>(space); si->setStateValidityChecker(validFn); si->setStateValidityCheckingResolution(seed%2?0.01:0.03); si->setup();
  auto pdef=std::make_shared<ob::ProblemDefinition>(si); ob::ScopedState<> s(space), g(space); s[0]=1;s[1]=1;g[0]=9;g[1]=9; pdef->setStartAndGoalStates(s,g,0.3);
  auto pl=std::make_shared<og::RRT>(si); pl->setRange(0.7); pl->setProblemDefinition(pdef); pl->setup(); long n=0; ob::PlannerTerminationCondition ptc([&]{return n++>=20000;}); if(pl->solve(ptc)!=ob::PlannerStatus::EXACT_SOLUTION) return 0;
  og::PathGeometric path(*pdef->getSolutionPath()->as<og::PathGeometric>());
  if(seed%4==0 && path.getStateCount()>3){ path.getStates().insert(path.getStates().begin()+2, si->cloneState(path.getState(2))); } // repeated state
  og::PathGeometric before(path); double len0=path.length(); double w0=denseWorst(si,path); auto opt=std::make_shared<ob::PathLengthOptimizationObjective>(si);
  og::PathSimplifier ps(si, pdef->getGoal(), opt); bool ret=false; const char* nm="";
  long m=0; ob::PlannerTerminationCondition ptc2([&]{return m++>=(long)(seed%40);});
  switch(routine){ case 0: nm="reduceVertices"; ret=ps.reduceVertices(path); break; case 1: nm="ropeShortcut"; ret=ps.ropeShortcutPath(path, 0.5+0.1*(seed%5)); break; case 2: nm="partialShortcut"; ret=ps.partialShortcutPath(path); break; case 3: nm="collapseClose"; ret=ps.collapseCloseVertices(path); break; case 4: nm="smoothBSpline"; ps.smoothBSpline(path, 1+seed%5); break; case 5: nm="perturbPath"; ret=ps.perturbPath(path, 0.5, 50, 10); break; case 6: nm="findBetterGoal"; ret=ps.findBetterGoal(path, ptc2); break; case 7: nm="simplify(ptc)"; ret=ps.simplify(path, ptc2); break; case 8: nm="simplifyMax"; ret=ps.simplifyMax(path); break; case 9: nm="interpolate(n)"; { unsigned want=path.getStateCount()+seed%50; path.interpolate(want); if(path.getStateCount()!=want){ printf("  %s seed=%u COUNT %zu != requested %u\n",nm,seed,path.getStateCount(),want); return 1;} } break; case 10: nm="subdivide"; path.subdivide(); break; case 11: nm="interpolate()"; path.interpolate(); break; }
  int bad=0; double len1=path.length(); double w1=denseWorst(si,path);
  if(path.getStateCount()==0){ printf("  %s seed=%u EMPTY\n",nm,seed); return 1; }
  if(!space->equalStates(path.getState(0),before.getState(0))){ printf("  %s seed=%u FIRST STATE CHANGED\n",nm,seed); bad++; }
  bool lastSame=space->equalStates(path.getStates().back(),before.getStates().back()); if(!lastSame && !(pdef->getGoal()->isSatisfied(path.getStates().back()) && (routine==6||routine==7||routine==8))){ printf("  %s seed=%u LAST STATE CHANGED (goal sat=%d)\n",nm,seed,(int)pdef->getGoal()->isSatisfied(path.getStates().back())); bad++; }
  if(w0<2.0 && w1>=2.0){ printf("  %s seed=%u DENSE ORACLE now fails: stretch %.2f (was %.2f)\n",nm,seed,w1,w0); bad++; }
  bool shorten = routine<=3||routine==6||routine==7||routine==8; if(shorten && len1>len0*(1+1e-9)){ printf("  %s seed=%u LONGER %.9g > %.9g\n",nm,seed,len1,len0); bad++; }
  if(routine>=9 && std::abs(len1-len0)>1e-9*len0){ printf("  %s seed=%u densify changed length %.12g -> %.12g\n",nm,seed,len0,len1); bad++; }
  if((routine==7||routine==8) && ret && !path.check()){ printf("  %s seed=%u returned true but check() false\n",nm,seed); bad++; }
  if(routine>=9){ size_t j=0; for(size_t i=0;i<before.getStateCount();i++){ while(j<path.getStateCount() && !space->equalStates(path.getState(j),before.getState(i))) j++; if(j==path.getStateCount()){ printf("  %s seed=%u original vertex %zu missing/out of order\n",nm,seed,i); bad++; break;} j++; } }
  return bad; }
int main(){ ompl::msg::noOutputHandler(); const char* names[]={"reduceVertices","ropeShortcut","partialShortcut","collapseClose","smoothBSpline","perturbPath","findBetterGoal","simplify(ptc)","simplifyMax","interpolate(n)","subdivide","interpolate()"};
 for(int r=0;r<12;r++){ int tot=0,crash=0; for(unsigned seed=1;seed<=60;seed++){ pid_t c=fork(); if(c==0){ alarm(60); int b=one(seed,r); fflush(stdout); _exit(b?1:0);} int stt; waitpid(c,&stt,0); if(!WIFEXITED(stt)){crash++; printf("  %s seed=%u CRASH sig=%d\n",names[r],seed,WTERMSIG(stt));} else tot+=WEXITSTATUS(stt);} printf("%-16s bad-cases=%d crash=%d\n",names[r],tot,crash); fflush(stdout);} }
