// compiled WITHOUT tsan: handoff via raw futex, invisible to TSan
#define _GNU_SOURCE
#include <linux/futex.h>
#include <sys/syscall.h>
#include <unistd.h>
#include <stdint.h>
static int turn = 0; // whose turn
static long fut(int *a, int op, int v){ return syscall(SYS_futex, a, op, v, 0, 0, 0); }
void wait_turn(int me){ for(;;){ int t=__atomic_load_n(&turn,__ATOMIC_SEQ_CST); if(t==me) return; fut(&turn,FUTEX_WAIT,t);} }
void give_turn(int to){ __atomic_store_n(&turn,to,__ATOMIC_SEQ_CST); fut(&turn,FUTEX_WAKE,1000); }
