#include <ompl/base/SpaceInformation.h>
#include <ompl/base/spaces/RealVectorStateSpace.h>
#include <ompl/base/ProblemDefinition.h>
#include <ompl/base/objectives/PathLengthOptimizationObjective.h>
#include <ompl/geometric/planners/informedtrees/BITstar.h>
#include <ompl/geometric/planners/informedtrees/AITstar.h>
#include <ompl/geometric/planners/sst/SST.h>
#include <ompl/util/Console.h>
#include <ompl/base/PlannerData.h>
#include <set>
#include <cstdio>
namespace ob=ompl::base; namespace og=ompl::geometric;
static std::set<const ob::State*> live;
struct CSpace: ob::RealVectorStateSpace { CSpace():ob::RealVectorStateSpace(2){} ob::State* allocState() const override { auto* s=ob::RealVectorStateSpace::allocState(); live.insert(s); return s; } void freeState(ob::State* s) const override { live.erase(s); ob::RealVectorStateSpace::freeState(s); } };
static bool validFn(const ob::State* s){ auto* r=s->as<ob::RealVectorStateSpace::StateType>(); double x=r->values[0]-5,y=r->values[1]-5; return x*x+y*y>4.0; }
static ob::PlannerTerminationCondition cnt(long k){ auto n=std::make_shared<long>(0); return ob::PlannerTerminationCondition([n,k]{ return (*n)++>=k; }); }
template<class P> void run(const char* nm, int mode){ live.clear(); { ompl::RNG::setSeed(3); auto space=std::make_shared<CSpace>(); space->setBounds(0,10); auto si=std::make_shared<ob::SpaceInformation>(space); si->setStateValidityChecker(validFn); si->setup();
  auto mk=[&](double sx,double sy,double gx,double gy){ auto pd=std::make_shared<ob::ProblemDefinition>(si); ob::ScopedState<> s(space), g(space); s[0]=sx;s[1]=sy;g[0]=gx;g[1]=gy; pd->setStartAndGoalStates(s,g,0.1); pd->setOptimizationObjective(std::make_shared<ob::PathLengthOptimizationObjective>(si)); return pd; };
  auto pd1=mk(1,1,9,9); auto pl=std::make_shared<P>(si); pl->setProblemDefinition(pd1); pl->setup(); pl->solve(cnt(4000)); size_t afterSolve=live.size();
  if(mode>=1){ ob::PlannerData d(si); pl->getPlannerData(d); printf("   pdata v=%u live now %zu\n", d.numVertices(), live.size()); } if(mode>=2){ pl->clear(); printf("   live after clear()=%zu (after solve %zu)\n", live.size(), afterSolve); } if(mode>=3){ auto pd2=mk(9,1,1,9); pl->setProblemDefinition(pd2); pl->solve(cnt(4000)); }
  long uc=pl.use_count(); (void)uc; }
  printf("%s mode=%d leaked=%zu\n",nm,mode,live.size()); }
int main(){ ompl::msg::noOutputHandler(); for(int m=0;m<4;m++) run<og::BITstar>("BITstar",m); for(int m=0;m<4;m++) run<og::AITstar>("AITstar",m); for(int m=0;m<4;m++) run<og::SST>("SST",m); }
