#include <ompl/base/Constraint.h>
#include <ompl/base/spaces/RealVectorStateSpace.h>
#include <ompl/base/spaces/constraint/ProjectedStateSpace.h>
#include <ompl/base/spaces/constraint/AtlasStateSpace.h>
#include <ompl/base/spaces/constraint/TangentBundleStateSpace.h>
#include <ompl/base/ConstrainedSpaceInformation.h>
#include <ompl/base/ProblemDefinition.h>
#include <ompl/geometric/PathGeometric.h>
#include <ompl/geometric/planners/rrt/RRTConnect.h>
#include <ompl/geometric/planners/rrt/RRT.h>
#include <ompl/geometric/planners/kpiece/KPIECE1.h>
#include <ompl/geometric/planners/prm/PRM.h>
#include <ompl/util/Console.h>
#include <cstdio>
namespace ob=ompl::base; namespace og=ompl::geometric;
struct Sphere: ob::Constraint { Sphere():ob::Constraint(3,1){} void function(const Eigen::Ref<const Eigen::VectorXd>&x, Eigen::Ref<Eigen::VectorXd> out) const override { out[0]=x.norm()-1; } void jacobian(const Eigen::Ref<const Eigen::VectorXd>&x, Eigen::Ref<Eigen::MatrixXd> out) const override { out=x.transpose().normalized(); } };
struct Torus: ob::Constraint { double R=2,r=0.5; Torus():ob::Constraint(3,1){} void function(const Eigen::Ref<const Eigen::VectorXd>&x, Eigen::Ref<Eigen::VectorXd> out) const override { double q=std::sqrt(x[0]*x[0]+x[1]*x[1])-R; out[0]=q*q+x[2]*x[2]-r*r; } };
static bool obst(const ob::State* s){ auto&& x=*s->as<ob::ConstrainedStateSpace::StateType>(); return !(std::abs(x[0])<0.15 && x[2]<0.6 && x[2]>-0.6 && x[1]>0); }
template<class SS> void run(const char* nm, ob::ConstraintPtr c, bool sphere, double delta){
  auto rv=std::make_shared<ob::RealVectorStateSpace>(3); rv->setBounds(-3.5,3.5); auto css=std::make_shared<SS>(rv,c); auto csi=std::make_shared<ob::ConstrainedSpaceInformation>(css); csi->setStateValidityChecker(obst); css->setDelta(delta);
  Eigen::VectorXd a(3), b(3); if(sphere){a<<0,0,-1; b<<0,0,1;} else {a<<-2.5,0,0; b<<2.5,0,0;}
  ob::ScopedState<> sa(css), sb(css); sa->as<ob::ConstrainedStateSpace::StateType>()->copy(a); sb->as<ob::ConstrainedStateSpace::StateType>()->copy(b);
  if constexpr(!std::is_same<SS,ob::ProjectedStateSpace>::value){ css->anchorChart(sa.get()); css->anchorChart(sb.get()); }
  csi->setup(); auto vs=csi->allocValidStateSampler(); auto* x=css->allocState(); auto* y=css->allocState(); int geoOK=0, geoBad=0, stepBad=0, endBad=0, vsBad=0, vsOk=0; double lam=css->getLambda();
  bool lazy=std::is_same<SS,ob::TangentBundleStateSpace>::value;
  for(int i=0;i<3000;i++){ if(!vs->sample(x)||!vs->sample(y)) continue; vsOk+=2; if(!c->isSatisfied(x)||!c->isSatisfied(y)) vsBad++; std::vector<ob::State*> g; bool ok=css->discreteGeodesic(x,y,false,&g); if(ok){ geoOK++; if(!lazy) for(auto* s:g) if(!c->isSatisfied(s)){ geoBad++; break;} for(size_t j=0;j+1<g.size();j++) if(css->distance(g[j],g[j+1])>lam*delta*(1+1e-9)){ stepBad++; break;} if(!g.empty() && css->distance(g.back(),y)>delta*(1+1e-9)) endBad++; } for(auto*s:g) css->freeState(s); }
  // planner on top
  int pathBad=0, paths=0; for(unsigned seed=1;seed<=6;seed++){ auto pd=std::make_shared<ob::ProblemDefinition>(csi); pd->setStartAndGoalStates(sa,sb,0.05); og::RRTConnect pl(csi); pl.setProblemDefinition(pd); pl.setup(); long n=0; ob::PlannerTerminationCondition ptc([&]{return n++>=20000;}); if(pl.solve(ptc)){ paths++; auto* p=pd->getSolutionPath()->template as<og::PathGeometric>(); for(auto* s:p->getStates()) if(!c->isSatisfied(s)){ pathBad++; break; } } }
  printf("%-20s delta=%.2f valid-sampler ok=%d offmanifold=%d | geodesics success=%d off-manifold=%d step>lambda*delta=%d end>delta=%d | RRTConnect paths=%d off-manifold=%d\n", nm, delta, vsOk, vsBad, geoOK, geoBad, stepBad, endBad, paths, pathBad);
}
int main(){ ompl::msg::setLogLevel(ompl::msg::LOG_NONE); ompl::RNG::setSeed(3);
  for(double d: {0.05, 0.2}){ run<ob::ProjectedStateSpace>("sphere projected", std::make_shared<Sphere>(), true, d); run<ob::AtlasStateSpace>("sphere atlas", std::make_shared<Sphere>(), true, d); run<ob::TangentBundleStateSpace>("sphere tangentbundle", std::make_shared<Sphere>(), true, d); run<ob::ProjectedStateSpace>("torus projected", std::make_shared<Torus>(), false, d); run<ob::AtlasStateSpace>("torus atlas", std::make_shared<Torus>(), false, d); run<ob::TangentBundleStateSpace>("torus tangentbundle", std::make_shared<Torus>(), false, d); }
}
