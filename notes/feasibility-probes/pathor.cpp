// probe: dense path oracle (param-space, own segment count), pairwise recheck, cost clauses, on many planners
#include <ompl/base/SpaceInformation.h>
#include <ompl/base/spaces/RealVectorStateSpace.h>
#include <ompl/base/spaces/SE2StateSpace.h>
#include <ompl/base/ProblemDefinition.h>
#include <ompl/base/objectives/PathLengthOptimizationObjective.h>
#include <ompl/geometric/PathGeometric.h>
#include <ompl/geometric/planners/rrt/RRT.h>
#include <ompl/geometric/planners/rrt/RRTConnect.h>
#include <ompl/geometric/planners/rrt/RRTstar.h>
#include <ompl/geometric/planners/rrt/LazyRRT.h>
#include <ompl/geometric/planners/rrt/TRRT.h>
#include <ompl/geometric/planners/rrt/LBTRRT.h>
#include <ompl/geometric/planners/kpiece/KPIECE1.h>
#include <ompl/geometric/planners/kpiece/BKPIECE1.h>
#include <ompl/geometric/planners/kpiece/LBKPIECE1.h>
#include <ompl/geometric/planners/est/EST.h>
#include <ompl/geometric/planners/sbl/SBL.h>
#include <ompl/geometric/planners/fmt/FMT.h>
#include <ompl/geometric/planners/prm/LazyPRM.h>
#include <ompl/geometric/planners/pdst/PDST.h>
#include <ompl/geometric/planners/sst/SST.h>
#include <ompl/geometric/planners/informedtrees/BITstar.h>
#include <ompl/geometric/planners/informedtrees/ABITstar.h>
#include <ompl/geometric/planners/informedtrees/AITstar.h>
#include <ompl/geometric/planners/informedtrees/EITstar.h>
#include <ompl/geometric/planners/informedtrees/EIRMstar.h>
#include <ompl/geometric/planners/rrt/RRTXstatic.h>
#include <ompl/geometric/planners/rrt/RRTsharp.h>
#include <ompl/geometric/planners/rrt/InformedRRTstar.h>
#include <ompl/geometric/planners/rrt/SORRTstar.h>
#include <ompl/geometric/planners/rrt/LazyLBTRRT.h>
#include <ompl/geometric/planners/rrt/BiTRRT.h>
#include <ompl/geometric/planners/rlrt/RLRT.h>
#include <ompl/geometric/planners/rlrt/BiRLRT.h>
#include <ompl/geometric/planners/est/BiEST.h>
#include <ompl/geometric/planners/est/ProjEST.h>
#include <ompl/geometric/planners/fmt/BFMT.h>
#include <ompl/geometric/planners/prm/LazyPRMstar.h>
#include <ompl/geometric/planners/stride/STRIDE.h>
#include <ompl/util/Console.h>
#include <cstdio>
#include <unistd.h>
#include <sys/wait.h>
namespace ob=ompl::base; namespace og=ompl::geometric;
struct Slab{ double x0,x1,y0,y1; };
static std::vector<Slab> slabs;
static bool validXY(double x,double y){ for(auto&s:slabs) if(x>=s.x0&&x<=s.x1&&y>=s.y0&&y<=s.y1) return false; return true; }
static bool se2=false;
static bool validFn(const ob::State* s){ if(se2){ auto* r=s->as<ob::SE2StateSpace::StateType>(); return validXY(r->getX(),r->getY()); } auto* r=s->as<ob::RealVectorStateSpace::StateType>(); return validXY(r->values[0],r->values[1]); }
static void mkworld(unsigned seed){ ompl::RNG r(seed); slabs.clear(); int n=r.uniformInt(3,8); for(int i=0;i<n;i++){ double cx=r.uniformReal(2,8), cy=r.uniformReal(0,10); double w=r.uniformReal(0.004,0.05), h=r.uniformReal(1,5); if(r.uniformBool()) slabs.push_back({cx-w,cx+w,cy-h,cy+h}); else slabs.push_back({cy-h,cy+h,cx-w,cx+w}); } // ensure start/goal free
  std::vector<Slab> k; for(auto&s:slabs){ auto in=[&](double x,double y){return x>=s.x0-0.2&&x<=s.x1+0.2&&y>=s.y0-0.2&&y<=s.y1+0.2;}; if(!in(1,1)&&!in(9,9)) k.push_back(s);} slabs=k; }
template<class P> int one(const char* name, unsigned seed, unsigned iters, double frac){
  ompl::RNG::setSeed(seed); mkworld(seed*7+1);
  ob::StateSpacePtr space; if(se2){ auto s=std::make_shared<ob::SE2StateSpace>(); ob::RealVectorBounds b(2); b.setLow(0); b.setHigh(10); s->setBounds(b); space=s;} else { auto s=std::make_shared<ob::RealVectorStateSpace>(2); s->setBounds(0,10); space=s; }
  auto si=std::make_shared<ob::SpaceInformation>(space); si->setStateValidityChecker(validFn); si->setStateValidityCheckingResolution(frac); si->setup();
  auto pdef=std::make_shared<ob::ProblemDefinition>(si); ob::ScopedState<> s(space), g(space);
  if(se2){ s[0]=1;s[1]=1;s[2]=0; g[0]=9;g[1]=9;g[2]=1; } else { s[0]=1;s[1]=1;g[0]=9;g[1]=9; }
  pdef->setStartAndGoalStates(s,g,0.1); auto opt=std::make_shared<ob::PathLengthOptimizationObjective>(si); pdef->setOptimizationObjective(opt);
  auto pl=std::make_shared<P>(si); pl->setProblemDefinition(pdef); pl->setup();
  long n=0; ob::PlannerTerminationCondition ptc([&]{ return n++>=iters; });
  ob::PlannerStatus st=pl->solve(ptc);
  int bad=0;
  for(auto& sol: pdef->getSolutions()){ auto* p=sol.path_->as<og::PathGeometric>(); auto& v=p->getStates(); if(v.empty()){printf("  %s seed=%u EMPTY PATH\n",name,seed);bad++;continue;}
    double Lseg=space->getLongestValidSegmentLength(); 
    ob::State* t=si->allocState(); double worst=0; int worstn=0; bool pair_ok=true;
    for(size_t i=0;i+1<v.size();i++){ double d=si->distance(v[i],v[i+1]); int nseg; if(se2){ auto* cs=space->as<ob::CompoundStateSpace>(); double d0=cs->getSubspace(0)->distance(v[i]->as<ob::CompoundState>()->components[0],v[i+1]->as<ob::CompoundState>()->components[0]); double d1=cs->getSubspace(1)->distance(v[i]->as<ob::CompoundState>()->components[1],v[i+1]->as<ob::CompoundState>()->components[1]); nseg=std::max((int)std::ceil(d0/cs->getSubspace(0)->getLongestValidSegmentLength()),(int)std::ceil(d1/cs->getSubspace(1)->getLongestValidSegmentLength())); } else nseg=(int)std::ceil(d/Lseg); if(nseg<1) nseg=1;
      int N=8*nseg; int run=0,maxrun=0; for(int j=0;j<=N;j++){ space->interpolate(v[i],v[i+1],(double)j/N,t); if(!validFn(t)){run++; maxrun=std::max(maxrun,run);} else run=0; }
      double stretch=(double)maxrun/N*nseg; if(stretch>worst){worst=stretch;worstn=nseg;} if(!si->checkMotion(v[i],v[i+1])) pair_ok=false; }
    si->freeState(t);
    double truec=p->cost(opt).value(); bool hascost=(bool)sol.opt_; 
    if(worst>=2.0){ printf("  %s seed=%u DENSE-ORACLE stretch=%.2f steps (n=%d) approx=%d\n",name,seed,worst,worstn,(int)sol.approximate_); bad++; }
    else if(!pair_ok){ printf("  %s seed=%u pairwise-recheck fails (stretch=%.2f steps) approx=%d states=%zu\n",name,seed,worst,(int)sol.approximate_,v.size()); }
    if(hascost && sol.cost_.value() < truec*(1-1e-9)-1e-12){ printf("  %s seed=%u STORED COST %.9g better than TRUE %.9g approx=%d\n",name,seed,sol.cost_.value(),truec,(int)sol.approximate_); bad++; }
    else if(hascost && std::abs(sol.cost_.value()-truec)>1e-9*truec+1e-12){ printf("  %s seed=%u stored cost %.9g > true %.9g (deferred) approx=%d\n",name,seed,sol.cost_.value(),truec,(int)sol.approximate_); }
    if(hascost && sol.optimized_ != opt->isSatisfied(sol.cost_)){ printf("  %s seed=%u OPTIMIZED FLAG %d vs isSatisfied %d\n",name,seed,(int)sol.optimized_,(int)opt->isSatisfied(sol.cost_)); bad++; }
  }
  return bad;
}
template<class P> void sweep(const char* name){ int tot=0,crash=0; for(unsigned seed=1;seed<=12;seed++){ pid_t c=fork(); if(c==0){ alarm(60); int b=one<P>(name,seed,1500, seed%2?0.01:0.03); fflush(stdout); _exit(b?1:0);} int stt; waitpid(c,&stt,0); if(!WIFEXITED(stt)) {crash++; printf("  %s seed=%u CRASH/timeout sig=%d\n",name,seed,WTERMSIG(stt));} else tot+=WEXITSTATUS(stt);} printf("%-16s %s bad-cases=%d crash=%d\n",name,se2?"SE2":"R2",tot,crash); fflush(stdout);} 
#define S(P) sweep<og::P>(#P);
int main(int argc,char**argv){ se2=argc>1&&argv[1][0]=='s'; ompl::msg::noOutputHandler();
 S(RRT) S(RRTConnect) S(RRTstar) S(InformedRRTstar) S(SORRTstar) S(RRTsharp) S(RRTXstatic) S(LazyRRT) S(TRRT) S(BiTRRT) S(LBTRRT) S(LazyLBTRRT) S(BITstar) S(ABITstar) S(AITstar) S(EITstar) S(EIRMstar) S(KPIECE1) S(BKPIECE1) S(LBKPIECE1) S(EST) S(BiEST) S(ProjEST) S(SBL) S(FMT) S(BFMT) S(LazyPRM) S(LazyPRMstar) S(STRIDE) S(PDST) S(SST) S(RLRT) S(BiRLRT)
}
