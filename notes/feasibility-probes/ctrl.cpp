// probe: control-path replay oracle on all control planners, kinematic car on SE2
#include <ompl/control/SpaceInformation.h>
#include <ompl/control/spaces/RealVectorControlSpace.h>
#include <ompl/control/PathControl.h>
#include <ompl/control/planners/rrt/RRT.h>
#include <ompl/control/planners/sst/SST.h>
#include <ompl/control/planners/est/EST.h>
#include <ompl/control/planners/kpiece/KPIECE1.h>
#include <ompl/control/planners/pdst/PDST.h>
#include <ompl/control/planners/syclop/SyclopRRT.h>
#include <ompl/control/planners/syclop/SyclopEST.h>
#include <ompl/control/planners/syclop/GridDecomposition.h>
#include <ompl/base/spaces/SE2StateSpace.h>
#include <ompl/base/ProblemDefinition.h>
#include <ompl/base/goals/GoalState.h>
#include <ompl/util/Console.h>
#include <cstdio>
#include <unistd.h>
#include <sys/wait.h>
namespace ob=ompl::base; namespace oc=ompl::control;
struct Slab{ double x0,x1,y0,y1; }; static std::vector<Slab> slabs;
static bool validXY(double x,double y){ for(auto&s:slabs) if(x>=s.x0&&x<=s.x1&&y>=s.y0&&y<=s.y1) return false; return true; }
static void mkworld(unsigned seed){ ompl::RNG r(seed); slabs.clear(); int n=r.uniformInt(1,4); for(int i=0;i<n;i++){ double cx=r.uniformReal(3,7), cy=r.uniformReal(0,10), w=r.uniformReal(0.05,0.3), h=r.uniformReal(1,3); slabs.push_back({cx-w,cx+w,cy-h,cy+h}); } }
static void prop(const ob::State* s, const oc::Control* c, double dt, ob::State* r){ auto* a=s->as<ob::SE2StateSpace::StateType>(); auto* u=c->as<oc::RealVectorControlSpace::ControlType>()->values; double x=a->getX(),y=a->getY(),th=a->getYaw(); auto* o=r->as<ob::SE2StateSpace::StateType>(); o->setXY(x+dt*u[0]*cos(th), y+dt*u[0]*sin(th)); double nt=th+dt*u[0]*tan(u[1]); nt=fmod(nt,2*M_PI); if(nt< -M_PI) nt+=2*M_PI; else if(nt>=M_PI) nt-=2*M_PI; o->setYaw(nt); }
struct Decomp: oc::GridDecomposition { Decomp(const ob::RealVectorBounds&b):oc::GridDecomposition(8,2,b){} void project(const ob::State*s,std::vector<double>&c)const override{ c.resize(2); c[0]=s->as<ob::SE2StateSpace::StateType>()->getX(); c[1]=s->as<ob::SE2StateSpace::StateType>()->getY(); } void sampleFullState(const ob::StateSamplerPtr& sampler,const std::vector<double>&c, ob::State*s) const override { sampler->sampleUniform(s); s->as<ob::SE2StateSpace::StateType>()->setXY(c[0],c[1]); } };
template<class P> int one(const char* name, unsigned seed, unsigned iters, int variant){
  ompl::RNG::setSeed(seed); mkworld(seed*13+5);
  auto space=std::make_shared<ob::SE2StateSpace>(); ob::RealVectorBounds b(2); b.setLow(0); b.setHigh(10); space->setBounds(b);
  auto cs=std::make_shared<oc::RealVectorControlSpace>(space,2); ob::RealVectorBounds cb(2); cb.setLow(0,-0.3); cb.setHigh(0,1.0); cb.setLow(1,-0.4); cb.setHigh(1,0.7); cs->setBounds(cb);
  auto si=std::make_shared<oc::SpaceInformation>(space,cs); si->setStatePropagator(prop); double step=(seed%3==0)?0.05:0.13; si->setPropagationStepSize(step); si->setMinMaxControlDuration(1+seed%3, 8+seed%5);
  si->setStateValidityChecker([&](const ob::State* s){ auto* a=s->as<ob::SE2StateSpace::StateType>(); return space->satisfiesBounds(s) && validXY(a->getX(),a->getY()); }); si->setup();
  auto pdef=std::make_shared<ob::ProblemDefinition>(si); ob::ScopedState<ob::SE2StateSpace> s(space), g(space); s->setXY(1,5); s->setYaw(0); g->setXY(9,5); g->setYaw(0); pdef->setStartAndGoalStates(s,g,1.0);
  std::shared_ptr<P> pl; if constexpr(std::is_base_of<oc::Syclop,P>::value) pl=std::make_shared<P>(si,std::make_shared<Decomp>(b)); else pl=std::make_shared<P>(si);
  if constexpr(std::is_same<P,oc::RRT>::value) pl->setIntermediateStates(variant==1);
  pl->setProblemDefinition(pdef); pl->setup();
  long n=0; ob::PlannerTerminationCondition ptc([&]{ return n++>=iters; }); ob::PlannerStatus st=pl->solve(ptc);
  int bad=0; if((bool)st != (pdef->getSolutionCount()>0)){ printf("  %s seed=%u STATUS/pdef mismatch\n",name,seed); bad++; }
  for(auto& sol: pdef->getSolutions()){ auto* p=sol.path_->as<oc::PathControl>(); auto& S=p->getStates(); auto& C=p->getControls(); auto& D=p->getControlDurations();
    if(S.empty()||S.size()!=C.size()+1||C.size()!=D.size()){ printf("  %s seed=%u MALFORMED path sizes %zu %zu %zu\n",name,seed,S.size(),C.size(),D.size()); bad++; continue; }
    if(!space->equalStates(S[0],s.get())){ printf("  %s seed=%u does not start at start\n",name,seed); bad++; }
    ob::State* cur=si->allocState(); ob::State* nxt=si->allocState(); double worst=0; bool okc=true, okd=true, okv=true; 
    for(size_t i=0;i<C.size();i++){ double q=D[i]/step; long k=lround(q); if(std::abs(q-k)>1e-9*std::max(1.0,q)||k<0) okd=false; auto* u=C[i]->as<oc::RealVectorControlSpace::ControlType>()->values; for(int j=0;j<2;j++) if(u[j]<cb.low[j]-1e-12||u[j]>cb.high[j]+1e-12) okc=false;
      si->copyState(cur,S[i]); for(long t=0;t<k;t++){ prop(cur,C[i],step,nxt); if(!si->isValid(nxt)) okv=false; std::swap(cur,nxt);} worst=std::max(worst, si->distance(cur,S[i+1])); }
    si->freeState(cur); si->freeState(nxt);
    double d=0; bool sat=pdef->getGoal()->isSatisfied(S.back(),&d);
    if(!okd){ printf("  %s seed=%u DURATION not multiple of step\n",name,seed); bad++; }
    if(!okc){ printf("  %s seed=%u CONTROL out of bounds\n",name,seed); bad++; }
    if(!okv){ printf("  %s seed=%u REPLAY hits invalid state\n",name,seed); bad++; }
    if(worst>1e-6){ printf("  %s seed=%u REPLAY deviates by %g (approx=%d, %zu segs)\n",name,seed,worst,(int)sol.approximate_,C.size()); bad++; }
    if(!sol.approximate_ && !sat){ printf("  %s seed=%u exact but last state not in goal d=%g\n",name,seed,d); bad++; }
    if(sol.approximate_ && std::abs(sol.difference_-d)>1e-9){ printf("  %s seed=%u approx difference %g vs actual %g\n",name,seed,sol.difference_,d); bad++; }
    if(!p->check()){ printf("  %s seed=%u path->check() false\n",name,seed); }
  }
  if(pdef->getSolutionCount()>0) printf("  %s seed=%u solved approx=%d segs=%zu\n",name,seed,(int)pdef->hasApproximateSolution(), pdef->getSolutionPath()->as<oc::PathControl>()->getControlCount());
  return bad; }
template<class P> void sweep(const char* name,int variant=0){ int tot=0,crash=0,solved=0; for(unsigned seed=1;seed<=16;seed++){ pid_t c=fork(); if(c==0){ alarm(60); int b=one<P>(name,seed,3000,variant); fflush(stdout); _exit(b?1:0);} int stt; waitpid(c,&stt,0); if(!WIFEXITED(stt)){crash++; printf("  %s seed=%u CRASH sig=%d\n",name,seed,WTERMSIG(stt));} else tot+=WEXITSTATUS(stt);} printf("%-14s bad-cases=%d crash=%d\n",name,tot,crash); fflush(stdout);} 
int main(){ ompl::msg::noOutputHandler(); sweep<oc::RRT>("RRT"); sweep<oc::RRT>("RRT+interm",1); sweep<oc::SST>("SST"); sweep<oc::EST>("EST"); sweep<oc::KPIECE1>("KPIECE1"); sweep<oc::PDST>("PDST"); sweep<oc::SyclopRRT>("SyclopRRT"); sweep<oc::SyclopEST>("SyclopEST"); }
