#include <ompl/base/SpaceInformation.h>
#include <ompl/base/spaces/SE3StateSpace.h>
#include <ompl/base/spaces/RealVectorStateSpace.h>
#include <ompl/base/ProblemDefinition.h>
#include <ompl/base/PlannerTerminationCondition.h>
#include <ompl/geometric/PathGeometric.h>
#include <ompl/datastructures/NearestNeighborsGNAT.h>
#include <ompl/util/Console.h>
#include <thread>
#include <cstdio>
namespace ob=ompl::base; namespace og=ompl::geometric;
extern "C" void wait_turn(int); extern "C" void give_turn(int);
int main(int argc, char** argv){ std::string what=argv[1]; ompl::msg::noOutputHandler();
  auto space=std::make_shared<ob::RealVectorStateSpace>(2); space->setBounds(0,10);
  auto si=std::make_shared<ob::SpaceInformation>(space);
  si->setStateValidityChecker([](const ob::State* s){ auto* r=s->as<ob::RealVectorStateSpace::StateType>(); double x=r->values[0]-5,y=r->values[1]-5; return x*x+y*y>4.0; });
  si->setup();
  ob::ScopedState<> a(space), b(space); a[0]=1;a[1]=1;b[0]=9;b[1]=1;
  ompl::NearestNeighborsGNAT<int> gnat(4,2,6,3,5); gnat.setDistanceFunction([](const int&x,const int&y){return (double)std::abs(x-y);}); for(int i=0;i<200;i++) gnat.add(i*7%201);
  auto ptc = ob::PlannerTerminationCondition([]{return false;});
  auto pdef=std::make_shared<ob::ProblemDefinition>(si);
  auto op=[&](int tid){ 
     if(what=="motion") si->checkMotion(a.get(), b.get());
     if(what=="gnat"){ std::vector<int> nb; gnat.nearestK(50+tid,3,nb); }
     if(what=="ptc"){ if(tid==1) (void)ptc(); else ptc.terminate(); }
     if(what=="pdef"){ if(tid==1){ auto p=std::make_shared<og::PathGeometric>(si,a.get(),b.get()); pdef->addSolutionPath(p,false,0.0,"x"); } else { (void)pdef->getSolutions(); (void)pdef->hasExactSolution(); } }
     if(what=="rng"){ ompl::RNG r; (void)r.uniform01(); }
     if(what=="space"){ auto s=std::make_shared<ob::SE3StateSpace>(); }
     if(what=="log"){ OMPL_INFORM("hello %d", tid); }
  };
  std::thread t1([&]{ for(int i=0;i<3;i++){ wait_turn(1); op(1); give_turn(2);} });
  std::thread t2([&]{ for(int i=0;i<3;i++){ wait_turn(2); op(2); give_turn(i==2?0:1);} });
  give_turn(1); wait_turn(0); t1.join(); t2.join();
  printf("%s done motions=%u\n", what.c_str(), si->getMotionValidator()->getCheckedMotionCount());
}
