#include <ompl/datastructures/NearestNeighborsGNAT.h>
#include <ompl/datastructures/NearestNeighborsGNATNoThreadSafety.h>
#include <ompl/datastructures/NearestNeighborsLinear.h>
#include <ompl/datastructures/NearestNeighborsSqrtApprox.h>
#include <ompl/datastructures/BinaryHeap.h>
#include <ompl/datastructures/PDF.h>
#include <cstdio>
#include <random>
#include <algorithm>
#include <set>
#include <functional>
struct Pt{ int id; int x,y; bool operator==(const Pt&o)const{return id==o.id;} bool operator!=(const Pt&o)const{return id!=o.id;} };
std::ostream& operator<<(std::ostream&o,const Pt&p){return o<<p.id;}
static double dist(const Pt&a,const Pt&b){ double dx=a.x-b.x,dy=a.y-b.y; return std::sqrt(dx*dx+dy*dy); }
template<class NN> int runNN(const char* nm, std::function<NN*(std::mt19937&)> mk, int cases){ int bad=0; for(int c=0;c<cases&&bad<3;c++){ std::mt19937 g(c+1); ompl::RNG::setSeed(c+1); NN* nn=mk(g); nn->setDistanceFunction(dist); std::vector<Pt> model; int nextid=0; int R=1+g()%6; std::string hist;
   for(int op=0;op<120;op++){ int k=g()%10; char b[64];
     if(k<4){ Pt p{nextid++,(int)(g()%R),(int)(g()%R)}; nn->add(p); model.push_back(p); snprintf(b,64,"add(%d:%d,%d) ",p.id,p.x,p.y); hist+=b; }
     else if(k==4){ std::vector<Pt> v; int n=g()%6; for(int i=0;i<n;i++){ Pt p{nextid++,(int)(g()%R),(int)(g()%R)}; v.push_back(p); model.push_back(p);} nn->add(v); snprintf(b,64,"addv(%d) ",n); hist+=b; }
     else if(k<7 && !model.empty()){ size_t i=g()%model.size(); Pt p=model[i]; bool r=nn->remove(p); snprintf(b,64,"rm(%d)=%d ",p.id,(int)r); hist+=b; if(!r){ printf("%s case %d: remove of present element returned false: %s\n",nm,c,hist.c_str()); bad++; break;} model.erase(model.begin()+i); }
     else if(k==7 && g()%8==0){ nn->clear(); model.clear(); hist+="clear "; }
     else { Pt q{-1,(int)(g()%(R+2))-1,(int)(g()%(R+2))-1}; size_t kk=g()%5; double rad=(g()%4)*0.75; std::vector<Pt> a,bv; 
        std::vector<double> md; for(auto&p:model) md.push_back(dist(q,p)); std::sort(md.begin(),md.end());
        nn->nearestK(q,kk,a); std::vector<double> ad; for(auto&p:a) ad.push_back(dist(q,p)); std::vector<double> ek(md.begin(), md.begin()+std::min(kk,md.size()));
        bool ok = ad==ek; for(auto&p:a) if(std::find(model.begin(),model.end(),p)==model.end()) ok=false; { auto s=a; std::sort(s.begin(),s.end(),[](const Pt&x,const Pt&y){return x.id<y.id;}); if(std::adjacent_find(s.begin(),s.end())!=s.end()) ok=false; }
        nn->nearestR(q,rad,bv); std::vector<double> bd; for(auto&p:bv) bd.push_back(dist(q,p)); std::vector<double> er; for(double d:md) if(d<=rad) er.push_back(d); if(bd!=er) ok=false;
        if(!model.empty()){ Pt n=nn->nearest(q); if(std::string(nm)!="SqrtApprox" && dist(q,n)!=md[0]) ok=false; if(std::find(model.begin(),model.end(),n)==model.end()) ok=false; }
        std::vector<Pt> l; nn->list(l); if(l.size()!=model.size()||nn->size()!=model.size()) ok=false;
        if(!ok){ printf("%s case %d MISMATCH after: %s| query(%d,%d) k=%zu r=%.2f got k-dists[",nm,c,hist.c_str(),q.x,q.y,kk,rad); for(double d:ad)printf("%.3f ",d); printf("] want ["); for(double d:ek)printf("%.3f ",d); printf("] R got %zu want %zu size %zu/%zu\n",bd.size(),er.size(),nn->size(),model.size()); bad++; break; } }
   }
   delete nn; }
  printf("%-12s cases=%d bad=%d\n",nm,cases,bad); return bad; }
int main(){
  runNN<ompl::NearestNeighborsGNAT<Pt>>("GNAT",[](std::mt19937&g){ unsigned deg=2+g()%5; return new ompl::NearestNeighborsGNAT<Pt>(deg,2,deg+2,1+g()%6,1+g()%5,g()%2); },3000);
  runNN<ompl::NearestNeighborsGNATNoThreadSafety<Pt>>("GNATnts",[](std::mt19937&g){ unsigned deg=2+g()%5; return new ompl::NearestNeighborsGNATNoThreadSafety<Pt>(deg,2,deg+2,1+g()%6,1+g()%5,g()%2); },3000);
  runNN<ompl::NearestNeighborsLinear<Pt>>("Linear",[](std::mt19937&g){ return new ompl::NearestNeighborsLinear<Pt>(); },1000);
  runNN<ompl::NearestNeighborsSqrtApprox<Pt>>("SqrtApprox",[](std::mt19937&g){ return new ompl::NearestNeighborsSqrtApprox<Pt>(); },1000);
  // heap
  { int bad=0; for(int c=0;c<20000;c++){ std::mt19937 g(c+7); ompl::BinaryHeap<int> h; std::vector<ompl::BinaryHeap<int>::Element*> el; std::multiset<int> m; for(int op=0;op<40;op++){ int k=g()%4; if(k<2||el.empty()){ int v=g()%50; el.push_back(h.insert(v)); m.insert(v);} else if(k==2){ size_t i=g()%el.size(); m.erase(m.find(el[i]->data)); h.remove(el[i]); el.erase(el.begin()+i);} else { size_t i=g()%el.size(); m.erase(m.find(el[i]->data)); el[i]->data=g()%50; m.insert(el[i]->data); h.update(el[i]); } if(!m.empty() && h.top()->data!=*m.begin()){ bad++; break; } } } printf("BinaryHeap   cases=20000 bad(top not min)=%d\n",bad); }
}
