#include <ompl/datastructures/PDF.h>
#include <ompl/datastructures/Grid.h>
#include <ompl/datastructures/GridN.h>
#include <ompl/datastructures/GridB.h>
#include <cstdio>
#include <random>
#include <map>
#include <set>
#include <vector>
#include <algorithm>
int main(){
 { // PDF exact config: integer weights
   int bad=0; long samples=0; for(int c=0;c<20000&&bad<5;c++){ std::mt19937 g(c+3); ompl::PDF<int> pdf; std::vector<ompl::PDF<int>::Element*> el; int next=0; std::string hist;
     for(int op=0;op<60&&bad<5;op++){ int k=g()%10; char b[48];
       if(k<4||el.empty()){ double w=g()%5; el.push_back(pdf.add(next++,w)); snprintf(b,48,"add(%g) ",w); hist+=b; }
       else if(k<6){ size_t i=g()%el.size(); double w=g()%7; pdf.update(el[i],w); snprintf(b,48,"upd(%zu,%g) ",i,w); hist+=b; }
       else if(k<8){ size_t i=g()%el.size(); pdf.remove(el[i]); el.erase(el.begin()+i); snprintf(b,48,"rm(%zu) ",i); hist+=b; }
       else if(!pdf.empty()){ // check against prefix sums in getElements order
         auto& E=pdf.getElements(); std::vector<double> w; double tot=0; for(auto* e:E){ w.push_back(pdf.getWeight(e)); tot+=w.back(); } if(E.size()!=el.size()){ printf("PDF size mismatch\n"); bad++; break; }
         if(tot<=0) continue; // all zero: skip
         for(int t=0;t<8;t++){ double r=(g()%1001)/1000.0; samples++; int got=pdf.sample(r); double x=r*tot, acc=0; std::set<int> okset; // elements whose closed interval contains x
            for(size_t i=0;i<w.size();i++){ double lo=acc, hi=acc+w[i]; acc=hi; if(w[i]>0 && x>=lo && x<=hi) okset.insert(E[i]->data_); }
            if(r==0||r==1){ bool liveel=false; for(auto*e:E) if(e->data_==got) liveel=true; if(!liveel){ printf("PDF c=%d r=%g returned dead element\n",c,r); bad++; } continue; }
            if(!okset.count(got)){ double wg=-1; for(auto*e:E) if(e->data_==got) wg=pdf.getWeight(e); printf("PDF case %d: %s| r=%.3f x=%g tot=%g got elem %d (weight %g) not in interval set\n",c,hist.c_str(),r,x,tot,got,wg); bad++; break; } } } }
   } printf("PDF exact-config: samples=%ld bad=%d\n",samples,bad); }
 { // GridB histories vs model
   using G=ompl::GridB<int>; int bad=0; for(int c=0;c<5000&&bad<5;c++){ std::mt19937 g(c+11); int dim=1+g()%3; G grid(dim); bool bounded=g()%2; G::Coord lo(dim),up(dim); for(int i=0;i<dim;i++){lo[i]=0;up[i]=3;} if(bounded) grid.setBounds(lo,up); if(g()%2) grid.setInteriorCellNeighborLimit(1+g()%(2*dim));
     std::map<std::vector<int>,G::Cell*> model; std::string hist;
     for(int op=0;op<60&&bad<5;op++){ G::Coord co(dim); std::vector<int> key(dim); for(int i=0;i<dim;i++){ co[i]=g()%4; key[i]=co[i]; } int k=g()%10; char b[48];
        if(k<6){ if(!model.count(key)){ auto* cell=grid.createCell(co); cell->data=g()%100; grid.add(cell); model[key]=cell; snprintf(b,48,"add(%d,%d,%d) ",key[0],dim>1?key[1]:0,dim>2?key[2]:0); hist+=b; } }
        else if(k<8){ if(model.count(key)){ auto* cell=model[key]; grid.remove(cell); grid.destroyCell(cell); model.erase(key); snprintf(b,48,"rm(%d,%d,%d) ",key[0],dim>1?key[1]:0,dim>2?key[2]:0); hist+=b; } }
        else { // check
          if(grid.size()!=model.size()){ printf("GridB size mismatch\n"); bad++; break; }
          unsigned nint=0,next=0; for(auto&kv:model){ auto* cell=kv.second; unsigned nb=0; for(int i=0;i<dim;i++){ auto k2=kv.first; k2[i]--; if(model.count(k2)) nb++; k2[i]+=2; if(model.count(k2)) nb++; } unsigned bd=0; if(bounded) for(int i=0;i<dim;i++) if(kv.first[i]==0||kv.first[i]==3) bd++; if(cell->neighbors!=nb+bd){ printf("GridB case %d: %s| neighbor count %u != %u+%u\n",c,hist.c_str(),cell->neighbors,nb,bd); bad++; break; } if(cell->border) next++; else nint++; }
          if(bad) break; if(grid.countInternal()!=nint||grid.countExternal()!=next){ printf("GridB case %d: heap counts %u/%u vs flags %u/%u : %s\n",c,grid.countInternal(),grid.countExternal(),nint,next,hist.c_str()); bad++; break; }
          if(!model.empty()){ if(next>0){ int best=1000; for(auto&kv:model) if(kv.second->border) best=std::min(best,kv.second->data); if(grid.topExternal()->data!=best){ printf("GridB case %d topExternal %d != %d\n",c,grid.topExternal()->data,best); bad++; break;} } if(nint>0){ int best=1000; for(auto&kv:model) if(!kv.second->border) best=std::min(best,kv.second->data); if(grid.topInternal()->data!=best){ printf("GridB case %d topInternal %d != best %d : %s\n",c,grid.topInternal()->data,best,hist.c_str()); bad++; break;} } }
          auto comps=grid.components(); size_t tot=0; for(auto&cc:comps) tot+=cc.size(); if(tot!=model.size()){ printf("GridB components cover %zu of %zu\n",tot,model.size()); bad++; break; } }
     } }
   printf("GridB histories: bad=%d\n",bad); }
}
