#include <chrono>
#include <thread>
#include <mutex>
#include <cstdio>
#include <ctime>
#include <dlfcn.h>
#include <pthread.h>
static long long sim_ns = 1000000000LL*1000; static int locks=0, sleeps=0, gets=0;
extern "C" int clock_gettime(clockid_t id, struct timespec* ts){ gets++; ts->tv_sec = sim_ns/1000000000LL; ts->tv_nsec = sim_ns%1000000000LL; return 0; }
extern "C" int nanosleep(const struct timespec* req, struct timespec* rem){ sleeps++; sim_ns += req->tv_sec*1000000000LL + req->tv_nsec; return 0; }
extern "C" int pthread_mutex_lock(pthread_mutex_t* m){ static auto real=(int(*)(pthread_mutex_t*))dlsym(RTLD_NEXT,"pthread_mutex_lock"); locks++; return real(m); }
#include "ompl/base/PlannerTerminationCondition.h"
#include "ompl/util/RandomNumbers.h"
int main(){
  auto t0 = std::chrono::system_clock::now();
  std::this_thread::sleep_for(std::chrono::seconds(3600));
  auto t1 = std::chrono::system_clock::now();
  printf("elapsed sim s=%ld gets=%d sleeps=%d\n", (long)std::chrono::duration_cast<std::chrono::seconds>(t1-t0).count(), gets, sleeps);
  auto ptc = ompl::base::timedPlannerTerminationCondition(10.0);
  printf("ptc before=%d\n", (int)ptc());
  sim_ns += 11LL*1000000000LL;
  printf("ptc after=%d\n", (int)ptc());
  int l0=locks; ompl::RNG r; printf("locks during RNG ctor=%d\n", locks-l0);
}
