#include <ompl/base/Constraint.h>
#include <ompl/base/spaces/RealVectorStateSpace.h>
#include <ompl/base/spaces/constraint/ProjectedStateSpace.h>
#include <ompl/base/spaces/constraint/AtlasStateSpace.h>
#include <ompl/base/spaces/constraint/TangentBundleStateSpace.h>
#include <ompl/base/ConstrainedSpaceInformation.h>
#include <ompl/util/Console.h>
#include <cstdio>
namespace ob=ompl::base;
struct Sphere: ob::Constraint { Sphere():ob::Constraint(3,1){} void function(const Eigen::Ref<const Eigen::VectorXd>&x, Eigen::Ref<Eigen::VectorXd> out) const override { out[0]=x.norm()-1; } void jacobian(const Eigen::Ref<const Eigen::VectorXd>&x, Eigen::Ref<Eigen::MatrixXd> out) const override { out=x.transpose().normalized(); } };
struct Torus: ob::Constraint { double R=2,r=0.5; Torus():ob::Constraint(3,1){} void function(const Eigen::Ref<const Eigen::VectorXd>&x, Eigen::Ref<Eigen::VectorXd> out) const override { double q=std::sqrt(x[0]*x[0]+x[1]*x[1])-R; out[0]=q*q+x[2]*x[2]-r*r; } };
template<class SS> void run(const char* nm, ob::ConstraintPtr c, double lo, double hi, int N){
  ompl::RNG::setSeed(11);
  auto rv=std::make_shared<ob::RealVectorStateSpace>(3); rv->setBounds(lo,hi);
  auto css=std::make_shared<SS>(rv,c); auto csi=std::make_shared<ob::ConstrainedSpaceInformation>(css);
  csi->setStateValidityChecker([](const ob::State*){return true;}); 
  if constexpr(!std::is_same<SS,ob::ProjectedStateSpace>::value){ Eigen::VectorXd v(3); if(nm[0]=='s'||nm[1]=='s'){v<<0,0,1;} else {v<<2.5,0,0;} auto* st=css->allocState(); st->template as<ob::ConstrainedStateSpace::StateType>()->copy(v); css->anchorChart(st); css->freeState(st);} 
  csi->setup();
  auto s=css->allocStateSampler(); auto* a=css->allocState(); auto* b=css->allocState(); auto* m=css->allocState(); int off=0, offi=0, ni=0; double worst=0;
  for(int i=0;i<N;i++){ s->sampleUniform(a); double d=c->distance(a); if(!c->isSatisfied(a)){off++; worst=std::max(worst,d);} if(i%10==0){ s->sampleUniform(b); if(c->isSatisfied(a)&&c->isSatisfied(b)){ for(double t: {0.0,0.3,0.7,1.0}){ css->interpolate(a,b,t,m); ni++; if(!c->isSatisfied(m)) offi++; } } } }
  printf("%-22s raw samples off-manifold %d/%d (worst |f|=%g, tol=%g)  interpolate off %d/%d\n", nm, off, N, worst, c->getTolerance(), offi, ni);
}
int main(){ ompl::msg::setLogLevel(ompl::msg::LOG_ERROR);
  run<ob::ProjectedStateSpace>("sphere projected", std::make_shared<Sphere>(), -2,2, 20000);
  run<ob::ProjectedStateSpace>("sphere proj tight", std::make_shared<Sphere>(), -0.9,0.9, 20000);
  run<ob::ProjectedStateSpace>("torus projected", std::make_shared<Torus>(), -3,3, 20000);
  run<ob::AtlasStateSpace>("asphere atlas", std::make_shared<Sphere>(), -2,2, 5000);
  run<ob::TangentBundleStateSpace>("bsphere tb", std::make_shared<Sphere>(), -2,2, 5000);
  run<ob::AtlasStateSpace>("atorus atlas", std::make_shared<Torus>(), -3,3, 5000);
}
