#include <ompl/base/SpaceInformation.h>
#include <ompl/base/spaces/RealVectorStateSpace.h>
#include <ompl/base/spaces/SE2StateSpace.h>
#include <ompl/base/ProblemDefinition.h>
#include <ompl/base/terminationconditions/IterationTerminationCondition.h>
#include <ompl/base/objectives/PathLengthOptimizationObjective.h>
#include <ompl/geometric/PathGeometric.h>
#include <ompl/geometric/planners/rrt/RRT.h>
#include <ompl/geometric/planners/rrt/RRTConnect.h>
#include <ompl/geometric/planners/rrt/RRTstar.h>
#include <ompl/geometric/planners/informedtrees/BITstar.h>
#include <ompl/geometric/planners/informedtrees/AITstar.h>
#include <ompl/geometric/planners/informedtrees/EITstar.h>
#include <ompl/geometric/planners/kpiece/KPIECE1.h>
#include <ompl/geometric/planners/est/EST.h>
#include <ompl/geometric/planners/sbl/SBL.h>
#include <ompl/geometric/planners/fmt/FMT.h>
#include <ompl/geometric/planners/prm/LazyPRM.h>
#include <ompl/geometric/planners/prm/SPARStwo.h>
#include <ompl/geometric/planners/stride/STRIDE.h>
#include <ompl/geometric/planners/pdst/PDST.h>
#include <ompl/geometric/planners/rrt/LazyLBTRRT.h>
#include <ompl/geometric/planners/rrt/LBTRRT.h>
#include <ompl/geometric/planners/rrt/RRTXstatic.h>
#include <ompl/geometric/planners/sst/SST.h>
#include <ompl/util/Console.h>
#include <cstdio>
#include <cstring>
#include <cstdint>
namespace ob=ompl::base; namespace og=ompl::geometric;
static uint64_t h64(uint64_t h, const void* p, size_t n){ const unsigned char* c=(const unsigned char*)p; for(size_t i=0;i<n;i++){ h^=c[i]; h*=1099511628211ULL;} return h; }
template<class P> uint64_t run(unsigned seed, unsigned iters, long* nvalid){
  ompl::RNG::setSeed(seed);
  auto space=std::make_shared<ob::RealVectorStateSpace>(2); space->setBounds(0,10);
  auto si=std::make_shared<ob::SpaceInformation>(space);
  long cnt=0;
  si->setStateValidityChecker([&cnt](const ob::State* s){ cnt++; auto* r=s->as<ob::RealVectorStateSpace::StateType>(); double x=r->values[0]-5,y=r->values[1]-5; return x*x+y*y>4.0; });
  si->setStateValidityCheckingResolution(0.01); si->setup();
  auto pdef=std::make_shared<ob::ProblemDefinition>(si);
  ob::ScopedState<> s(space), g(space); s[0]=1;s[1]=1;g[0]=9;g[1]=9; pdef->setStartAndGoalStates(s,g,0.1);
  pdef->setOptimizationObjective(std::make_shared<ob::PathLengthOptimizationObjective>(si));
  auto pl=std::make_shared<P>(si); pl->setProblemDefinition(pdef); pl->setup();
  ob::IterationTerminationCondition itc(iters);
  ob::PlannerTerminationCondition ptc = itc; ob::PlannerStatus st=pl->solve(ptc);
  uint64_t h=1469598103934665603ULL; int sti=(int)(ob::PlannerStatus::StatusType)st; h=h64(h,&sti,sizeof sti);
  if(pdef->hasSolution()){ auto* p=pdef->getSolutionPath()->as<og::PathGeometric>(); for(auto* x: p->getStates()){ h=h64(h,x->as<ob::RealVectorStateSpace::StateType>()->values,16);} }
  *nvalid=cnt; return h;
}
#define T(P) { long a,b; uint64_t h1=run<og::P>(seed,iters,&a); uint64_t h2=run<og::P>(seed,iters,&b); printf("%-12s %016lx %016lx nv=%ld/%ld %s\n", #P, h1,h2,a,b, (h1==h2&&a==b)?"same":"DIFF"); }
int main(int argc,char**argv){ unsigned seed=atoi(argv[1]); unsigned iters=atoi(argv[2]); ompl::msg::noOutputHandler();
 T(RRT) T(RRTConnect) T(RRTstar) T(BITstar) T(AITstar) T(EITstar) T(KPIECE1) T(EST) T(SBL) T(FMT) T(LazyPRM) T(STRIDE) T(PDST) T(LBTRRT) T(RRTXstatic) T(SST) T(SPARStwo)
}
