#include <ompl/base/SpaceInformation.h>
#include <ompl/base/spaces/RealVectorStateSpace.h>
#include <ompl/base/spaces/SE2StateSpace.h>
#include <ompl/geometric/planners/rrt/RRT.h>
#include <ompl/geometric/planners/rrt/RRTConnect.h>
#include <ompl/geometric/planners/rrt/RRTstar.h>
#include <ompl/geometric/planners/rrt/InformedRRTstar.h>
#include <ompl/geometric/planners/rrt/SORRTstar.h>
#include <ompl/geometric/planners/rrt/RRTsharp.h>
#include <ompl/geometric/planners/rrt/RRTXstatic.h>
#include <ompl/geometric/planners/rrt/LazyRRT.h>
#include <ompl/geometric/planners/rrt/TRRT.h>
#include <ompl/geometric/planners/rrt/BiTRRT.h>
#include <ompl/geometric/planners/rrt/LBTRRT.h>
#include <ompl/geometric/planners/rrt/LazyLBTRRT.h>
#include <ompl/geometric/planners/rrt/pRRT.h>
#include <ompl/geometric/planners/rrt/TSRRT.h>
#include <ompl/geometric/planners/rrt/STRRTstar.h>
#include <ompl/geometric/planners/informedtrees/BITstar.h>
#include <ompl/geometric/planners/informedtrees/ABITstar.h>
#include <ompl/geometric/planners/informedtrees/AITstar.h>
#include <ompl/geometric/planners/informedtrees/EITstar.h>
#include <ompl/geometric/planners/informedtrees/EIRMstar.h>
#include <ompl/geometric/planners/kpiece/KPIECE1.h>
#include <ompl/geometric/planners/kpiece/BKPIECE1.h>
#include <ompl/geometric/planners/kpiece/LBKPIECE1.h>
#include <ompl/geometric/planners/est/EST.h>
#include <ompl/geometric/planners/est/BiEST.h>
#include <ompl/geometric/planners/est/ProjEST.h>
#include <ompl/geometric/planners/sbl/SBL.h>
#include <ompl/geometric/planners/sbl/pSBL.h>
#include <ompl/geometric/planners/fmt/FMT.h>
#include <ompl/geometric/planners/fmt/BFMT.h>
#include <ompl/geometric/planners/prm/PRM.h>
#include <ompl/geometric/planners/prm/PRMstar.h>
#include <ompl/geometric/planners/prm/LazyPRM.h>
#include <ompl/geometric/planners/prm/LazyPRMstar.h>
#include <ompl/geometric/planners/prm/SPARS.h>
#include <ompl/geometric/planners/prm/SPARStwo.h>
#include <ompl/geometric/planners/stride/STRIDE.h>
#include <ompl/geometric/planners/pdst/PDST.h>
#include <ompl/geometric/planners/sst/SST.h>
#include <ompl/geometric/planners/rlrt/RLRT.h>
#include <ompl/geometric/planners/rlrt/BiRLRT.h>
#include <ompl/geometric/planners/cforest/CForest.h>
#include <ompl/geometric/planners/AnytimePathShortening.h>
#include <ompl/util/Console.h>
#include <cstdio>
namespace ob=ompl::base; namespace og=ompl::geometric;
static const char* goalName(ob::GoalType g){ switch(g){ case ob::GOAL_ANY: return "ANY"; case ob::GOAL_REGION: return "REGION"; case ob::GOAL_SAMPLEABLE_REGION: return "SAMPLEABLE"; case ob::GOAL_STATE: return "STATE"; case ob::GOAL_STATES: return "STATES"; case ob::GOAL_LAZY_SAMPLES: return "LAZY"; default: return "?"; } }
template<class P> void show(const char* nm, ob::SpaceInformationPtr si){ P p(si); auto& s=p.getSpecs(); std::string params; for(auto& kv: p.params().getParams()){ params+=kv.first+"["+kv.second->getRangeSuggestion()+"] "; }
  printf("| %s | %s | %d | %d | %d | %d | %d | %s |\n", nm, goalName(s.recognizedGoal), (int)s.multithreaded, (int)s.approximateSolutions, (int)s.optimizingPaths, (int)s.directed, (int)s.canReportIntermediateSolutions, params.c_str()); }
#define S(P) show<og::P>(#P, si);
int main(){ ompl::msg::noOutputHandler(); auto space=std::make_shared<ob::SE2StateSpace>(); ob::RealVectorBounds b(2); b.setLow(0); b.setHigh(1); space->setBounds(b); auto si=std::make_shared<ob::SpaceInformation>(space); si->setStateValidityChecker([](const ob::State*){return true;}); si->setup();
 printf("| planner | recognizedGoal | multithreaded | approximate | optimizing | directed | intermediate | params[range suggestion] |\n|---|---|---|---|---|---|---|---|\n");
 S(RRT) S(RRTConnect) S(RRTstar) S(InformedRRTstar) S(SORRTstar) S(RRTsharp) S(RRTXstatic) S(LazyRRT) S(TRRT) S(BiTRRT) S(LBTRRT) S(LazyLBTRRT) S(pRRT) S(BITstar) S(ABITstar) S(AITstar) S(EITstar) S(EIRMstar) S(KPIECE1) S(BKPIECE1) S(LBKPIECE1) S(EST) S(BiEST) S(ProjEST) S(SBL) S(pSBL) S(FMT) S(BFMT) S(PRM) S(PRMstar) S(LazyPRM) S(LazyPRMstar) S(SPARS) S(SPARStwo) S(STRIDE) S(PDST) S(SST) S(RLRT) S(BiRLRT) S(CForest) S(AnytimePathShortening)
}
