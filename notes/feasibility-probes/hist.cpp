// probe: C03 history oracle (resume monotonicity, clear/new-query isolation, state accounting)
#include <ompl/base/SpaceInformation.h>
#include <ompl/base/spaces/RealVectorStateSpace.h>
#include <ompl/base/ProblemDefinition.h>
#include <ompl/base/PlannerData.h>
#include <ompl/base/objectives/PathLengthOptimizationObjective.h>
#include <ompl/geometric/PathGeometric.h>
#include <ompl/geometric/planners/rrt/RRT.h>
#include <ompl/geometric/planners/rrt/RRTConnect.h>
#include <ompl/geometric/planners/rrt/RRTstar.h>
#include <ompl/geometric/planners/rrt/InformedRRTstar.h>
#include <ompl/geometric/planners/rrt/RRTsharp.h>
#include <ompl/geometric/planners/rrt/RRTXstatic.h>
#include <ompl/geometric/planners/rrt/LazyRRT.h>
#include <ompl/geometric/planners/rrt/TRRT.h>
#include <ompl/geometric/planners/rrt/BiTRRT.h>
#include <ompl/geometric/planners/rrt/LBTRRT.h>
#include <ompl/geometric/planners/rrt/LazyLBTRRT.h>
#include <ompl/geometric/planners/informedtrees/BITstar.h>
#include <ompl/geometric/planners/informedtrees/ABITstar.h>
#include <ompl/geometric/planners/informedtrees/AITstar.h>
#include <ompl/geometric/planners/informedtrees/EITstar.h>
#include <ompl/geometric/planners/informedtrees/EIRMstar.h>
#include <ompl/geometric/planners/kpiece/KPIECE1.h>
#include <ompl/geometric/planners/kpiece/BKPIECE1.h>
#include <ompl/geometric/planners/kpiece/LBKPIECE1.h>
#include <ompl/geometric/planners/est/EST.h>
#include <ompl/geometric/planners/est/BiEST.h>
#include <ompl/geometric/planners/est/ProjEST.h>
#include <ompl/geometric/planners/sbl/SBL.h>
#include <ompl/geometric/planners/fmt/FMT.h>
#include <ompl/geometric/planners/fmt/BFMT.h>
#include <ompl/geometric/planners/prm/LazyPRM.h>
#include <ompl/geometric/planners/prm/LazyPRMstar.h>
#include <ompl/geometric/planners/stride/STRIDE.h>
#include <ompl/geometric/planners/pdst/PDST.h>
#include <ompl/geometric/planners/sst/SST.h>
#include <ompl/geometric/planners/rlrt/RLRT.h>
#include <ompl/geometric/planners/rlrt/BiRLRT.h>
#include <ompl/util/Console.h>
#include <cstdio>
#include <set>
#include <unistd.h>
#include <sys/wait.h>
namespace ob=ompl::base; namespace og=ompl::geometric;
static std::set<const ob::State*> live; static long doubleFree=0;
struct CSpace: ob::RealVectorStateSpace { CSpace():ob::RealVectorStateSpace(2){} ob::State* allocState() const override { auto* s=ob::RealVectorStateSpace::allocState(); live.insert(s); return s; } void freeState(ob::State* s) const override { if(!live.erase(s)) doubleFree++; ob::RealVectorStateSpace::freeState(s); } };
static bool validFn(const ob::State* s){ auto* r=s->as<ob::RealVectorStateSpace::StateType>(); double x=r->values[0]-5,y=r->values[1]-5; return x*x+y*y>4.0; }
static ob::PlannerTerminationCondition cnt(long k){ auto n=std::make_shared<long>(0); return ob::PlannerTerminationCondition([n,k]{ return (*n)++>=k; }); }
static std::string rank(const ob::ProblemDefinitionPtr& pd){ ob::PlannerSolution s(nullptr); if(!pd->getSolution(s)) return "none"; char b[80]; snprintf(b,80,"%s len=%.6f", s.approximate_?"approx":"exact", s.approximate_? s.difference_: s.length_); return b; }
static int worse(const ob::ProblemDefinitionPtr& pd, bool hadSol, bool hadExact, double prevMetric){ ob::PlannerSolution s(nullptr); bool has=pd->getSolution(s); if(hadSol && !has) return 1; if(!has) return 0; if(hadExact && s.approximate_) return 2; if(hadExact && s.length_>prevMetric*(1+1e-9)) return 3; if(hadSol&&!hadExact && s.approximate_ && s.difference_>prevMetric*(1+1e-9)) return 4; return 0; }
template<class P> int one(const char* name, unsigned seed){ int bad=0; {
  ompl::RNG::setSeed(seed); auto space=std::make_shared<CSpace>(); space->setBounds(0,10); auto si=std::make_shared<ob::SpaceInformation>(space); si->setStateValidityChecker(validFn); si->setStateValidityCheckingResolution(0.01); si->setup();
  auto mk=[&](double sx,double sy,double gx,double gy){ auto pd=std::make_shared<ob::ProblemDefinition>(si); ob::ScopedState<> s(space), g(space); s[0]=sx;s[1]=sy;g[0]=gx;g[1]=gy; pd->setStartAndGoalStates(s,g,0.1); pd->setOptimizationObjective(std::make_shared<ob::PathLengthOptimizationObjective>(si)); return pd; };
  auto pd1=mk(1,1,9,9); auto pl=std::make_shared<P>(si); pl->setProblemDefinition(pd1); pl->setup();
  long ks[3]={ (long)(seed*37%200), 300+(long)(seed*53%500), 1500 };
  bool had=false, hadExact=false; double metric=0;
  for(int i=0;i<3;i++){ auto st=pl->solve(cnt(ks[i])); size_t nsol=pd1->getSolutionCount(); if((bool)st && nsol==0){ printf("  %s seed=%u solve#%d status solution but pdef empty\n",name,seed,i); bad++; }
    int w=worse(pd1,had,hadExact,metric); if(w){ printf("  %s seed=%u solve#%d RESUME MADE TOP SOLUTION WORSE (code %d): now %s\n",name,seed,i,w,rank(pd1).c_str()); bad++; }
    ob::PlannerSolution s(nullptr); if(pd1->getSolution(s)){ had=true; hadExact=!s.approximate_; metric= s.approximate_? s.difference_ : s.length_; }
    if(i==1){ ob::PlannerData d(si); pl->getPlannerData(d); } }
  pl->clear(); { ob::PlannerData d(si); pl->getPlannerData(d); if(d.numVertices()>0){ printf("  %s seed=%u planner data not empty after clear(): %u vertices\n",name,seed,d.numVertices()); /*info*/ } }
  auto pd2=mk(9,1,1,9); pl->setProblemDefinition(pd2); auto st=pl->solve(cnt(3000));
  if(pd2->getSolutionCount()>0){ auto* p=pd2->getSolutionPath()->template as<og::PathGeometric>(); ob::ScopedState<> s2(space); s2[0]=9;s2[1]=1; if(p->getStateCount()==0 || !space->equalStates(p->getState(0),s2.get())){ printf("  %s seed=%u AFTER CLEAR path does not start at new start\n",name,seed); bad++; }
     double d; bool sat=pd2->getGoal()->isSatisfied(p->getStates().back(),&d); if(!pd2->hasApproximateSolution() && !sat){ printf("  %s seed=%u AFTER CLEAR exact path does not end in new goal\n",name,seed); bad++; }
     for(auto* x: p->getStates()){ auto* v=x->template as<ob::RealVectorStateSpace::StateType>()->values; if((v[0]==1&&v[1]==1)||(v[0]==9&&v[1]==9)){ printf("  %s seed=%u AFTER CLEAR path contains a state of the OLD query\n",name,seed); bad++; break; } } }
  else if((bool)st){ printf("  %s seed=%u status solution but pd2 empty\n",name,seed); bad++; }
  if(pd1->getSolutionCount()==0 && false) {}
  }
  if(!live.empty()){ printf("  %s seed=%u LEAKED %zu states after everything destroyed\n",name,seed,live.size()); bad++; }
  if(doubleFree){ printf("  %s seed=%u %ld frees of non-live states\n",name,seed,doubleFree); bad++; }
  return bad; }
template<class P> void sweep(const char* name){ int tot=0,crash=0; for(unsigned seed=1;seed<=8;seed++){ pid_t c=fork(); if(c==0){ alarm(120); int b=one<P>(name,seed); fflush(stdout); _exit(b?1:0);} int stt; waitpid(c,&stt,0); if(!WIFEXITED(stt)){crash++; printf("  %s seed=%u CRASH sig=%d\n",name,seed,WTERMSIG(stt));} else tot+=WEXITSTATUS(stt);} printf("%-16s bad-cases=%d crash=%d\n",name,tot,crash); fflush(stdout);} 
#define S(P) sweep<og::P>(#P);
int main(){ ompl::msg::noOutputHandler();
 S(RRT) S(RRTConnect) S(RRTstar) S(InformedRRTstar) S(RRTsharp) S(RRTXstatic) S(LazyRRT) S(TRRT) S(BiTRRT) S(LBTRRT) S(LazyLBTRRT) S(BITstar) S(ABITstar) S(AITstar) S(EITstar) S(EIRMstar) S(KPIECE1) S(BKPIECE1) S(LBKPIECE1) S(EST) S(BiEST) S(ProjEST) S(SBL) S(FMT) S(BFMT) S(LazyPRM) S(LazyPRMstar) S(STRIDE) S(PDST) S(SST) S(RLRT) S(BiRLRT) }
